#!/venv/bin/python
"""Regenerates MANIFEST.json from the property modules that exist."""
import importlib
import json
import os
import sys

ROOT = os.path.dirname(os.path.dirname(os.path.abspath(__file__)))
sys.path.insert(0, ROOT)
sys.path.insert(0, os.environ.get("JSL_REPO", "/repo"))
os.environ.setdefault("MPLBACKEND", "Agg")

BASELINE = (
    "cd /repo && /venv/bin/python -m pytest -ra -q -p no:cacheprovider "
    "--timeout=900 --continue-on-collection-errors"
)

props = [json.loads(l) for l in open(os.path.join(ROOT, "properties.jsonl"))]
checks = []
na = []
for p in props:
    pid = p["id"]
    path = os.path.join(ROOT, "jsverif", "props", pid.lower() + ".py")
    if not os.path.exists(path):
        na.append(
            {
                "property_id": pid,
                "reason": "check not built yet (planned: property-based, see DESIGN.md section 3); not claimed until it runs",
            }
        )
        continue
    mod = importlib.import_module(f"jsverif.props.{pid.lower()}")
    checks.append(
        {
            "property_id": pid,
            "quick_cmd": f"./check {pid} quick",
            "thorough_cmd": f"./check {pid} thorough",
            "evidence_file": f"evidence/{pid}.json",
            "replay_cmd_template": f"./check {pid} --replay {{path}}",
            "engine": "jsverif",
            "level_claimed": {
                "category": "exploration",
                "text": getattr(mod, "LEVEL_TEXT", None)
                or (
                    "Generated-input search (Hypothesis) against an independent oracle; "
                    "reports cases generated, distinct non-trivial cases and samples. "
                    "Finds violations, never proves absence."
                ),
                "design_ref": f"DESIGN.md section 3, {pid}",
            },
            "level_note": "; ".join(getattr(mod, "ASSUMPTIONS", []))
            or "oracle in jsverif/model.py is trusted",
            "technique": getattr(mod, "TECHNIQUE", "property-based testing (Hypothesis) with model-based / differential oracle"),
        }
    )

manifest = {
    "version": 1,
    "setup_cmd": "(/venv/bin/python -c 'import hypothesis' 2>/dev/null || /venv/bin/pip install --no-index --find-links /opt/veriftools/wheels hypothesis) && (test -d /verif/.deps/atheris || /venv/bin/pip install -q --no-index --find-links /opt/veriftools/wheels --target /verif/.deps atheris || true)",
    "hooks": {
        "guard": "JOB_SHOP_LIB_VERIF",
        "enable": "no hooks needed: every property is observed through the public API; the guard variable is unused",
        "baseline_off_cmd": BASELINE,
        "source_commits": [],
        "add_only": True,
    },
    "engines": [
        {
            "name": "jsverif",
            "path": "jsverif/",
            "serves_properties": [c["property_id"] for c in checks],
            "kind_free_text": "Hypothesis strategies + independent reference model + runner (seeds, tiers, 16 workers, shrinking, replay, evidence)",
        },
        {
            "name": "jsverif-fuzz",
            "path": "jsverif/fuzz.py",
            "serves_properties": ["C01", "C02", "C05", "C06", "C07"],
            "kind_free_text": "atheris/libFuzzer coverage-guided campaign over the same plain-data cases and oracles (thorough tier only)",
        }
    ],
    "checks": checks,
    "not_applicable": na,
    "notes": "All checks: ./check <ID> quick|thorough; VERIF_SEED selects the Hypothesis seed; exit 0/1/2 = held / VIOLATION / harness error. known_findings.json lists recorded and fixed defects.",
}
with open(os.path.join(ROOT, "MANIFEST.json"), "w") as f:
    json.dump(manifest, f, indent=1)
print("checks:", [c["property_id"] for c in checks])
