#!/bin/bash
# tools/run_seeded.sh <seeded-dir-name> <ID> [tier]: runs ./check ID against a
# scratch copy of /repo with seeded/<name>/patch.diff applied. Prints exit code.
set -u
NAME=$1; ID=$2; TIER=${3:-quick}
SCRATCH=$(mktemp -d /tmp/jslseed.XXXXXX)
trap 'rm -rf "$SCRATCH"' EXIT
rsync -a --exclude .git --exclude docs --exclude '__pycache__' /repo/ "$SCRATCH/"
( cd "$SCRATCH" && patch -p1 -s < /verif/seeded/$NAME/patch.diff ) || { echo "PATCH-FAILED"; exit 3; }
cd /verif
JSL_REPO="$SCRATCH" VERIF_OUT="$SCRATCH/out" ./check "$ID" "$TIER" 2>&1 | grep -v WARNING | tail -3 | cut -c1-400
RC=${PIPESTATUS[0]}
# keep the (shrunk) failing case as a regression input for this property
if [ "$RC" = "1" ] && [ -n "${SAVE_REPLAY:-}" ]; then
  F=$(ls "$SCRATCH"/out/failures/$ID/*.json 2>/dev/null | head -1)
  if [ -n "$F" ]; then mkdir -p /verif/replays/$ID; cp "$F" /verif/replays/$ID/seeded-$NAME.json; fi
fi
echo "seeded=$NAME check=$ID exit=$RC"
