#!/venv/bin/python
"""Sensitivity protocol: applies each hand-written mutant / fix revert to a
scratch copy, runs the repo tests and the listed quick checks; writes
mutants/RESULTS.md."""
import os
import subprocess
from concurrent.futures import ThreadPoolExecutor

ROOT = os.path.dirname(os.path.dirname(os.path.abspath(__file__)))
TABLE = {
    "c01_start_min.diff": ["C01", "C02"],
    "c05_cache_not_cleared_reset.diff": ["C05"],
    "c06_time_from_raw_ready.diff": ["C06", "C05"],
    "c07_non_idle_strict.diff": ["C07"],
    "c08_nondelay_dominance.diff": ["C08", "C07"],
    "c09_mutate_before_validation.diff": ["C09"],
    "c10_notify_before_cache_clear.diff": ["C10"],
    "c11_r05_gap_propagation.diff": ["C11"],
    "c13_idle_reward_includes_self.diff": ["C13"],
    "c14_operation_id_per_job.diff": ["C14"],
    "c16_agent_graph_one_direction.diff": ["C16"],
    "c17_remove_scheduled_instead_of_completed.diff": ["C17"],
    "c19_r12_lower_bound.diff": ["C19"],
    "c19_r13_first_k_machines.diff": ["C19"],
    "reverts/r01_5d38e6a.diff": ["C15"],
    "reverts/r02_bd69a47.diff": ["C04"],
    "reverts/r03_b7f98d6.diff": ["C04"],
    "reverts/r04_4cfc2f3.diff": ["C05"],
    "reverts/r06_3d6a00a.diff": ["C11"],
    "reverts/r07_fa47779.diff": ["C12"],
    "reverts/r08_f4a38be.diff": ["C12"],
    "reverts/r09_7399958.diff": ["C12"],
    "reverts/r10_a2cd4cf.diff": ["C18"],
    "reverts/r11_5e21dab.diff": ["C18"],
    "reverts/r14_e025200.diff": ["C19"],
    "reverts/r15_9d82c8e.diff": ["C03"],
    "reverts/r16_0551186.diff": ["C20"],
    "reverts/r17_duration_observer_midrun.diff": ["C04"],
    "reverts/r18_notify_skip.diff": ["C10"],
    "reverts/r19_0032464.diff": ["C20"],
    "reverts/r20_ae5c979.diff": ["C12", "C11"],
    "c10_notify_snapshot_no_recheck.diff": ["C10"],
}


def run(item):
    name, check, tests = item
    args = [os.path.join(ROOT, "tools", "mutant.sh"), os.path.join(ROOT, "mutants", name), check, "quick"]
    if tests:
        args.append("--tests")
    out = subprocess.run(args, capture_output=True, text=True).stdout
    code = out.strip().splitlines()[-1].split("exit=")[-1] if out.strip() else "?"
    clause = ""
    t = ""
    for line in out.splitlines():
        if line.startswith("["):
            clause = line.split("]")[0] + "]"
        if " passed" in line or " failed" in line:
            t = line.strip()
    return name, check, code, clause, t


items = []
for name, checks in TABLE.items():
    for i, c in enumerate(checks):
        items.append((name, c, i == 0))
with ThreadPoolExecutor(8) as ex:
    res = list(ex.map(run, items))
lines = ["| mutant | repo tests | check | outcome |", "|---|---|---|---|"]
tests = {}
for name, check, code, clause, t in res:
    if t:
        tests[name] = t
bad = 0
for name, check, code, clause, t in res:
    ok = code == "1"
    bad += not ok
    lines.append(f"| {name} | {tests.get(name, '')} | {check} | {'VIOLATION ' + clause if ok else 'exit ' + code} |")
open(os.path.join(ROOT, "mutants", "RESULTS.md"), "w").write(
    "# Hand-written mutants and reverts of the repository fixes vs the quick checks\n\n" + "\n".join(lines) + "\n"
)
print("\n".join(lines[2:]))
print("not detected:", bad)
