#!/bin/bash
# tools/validate_seed.sh <ID> <k> [root=/tmp/seed] [dest-k]: validates <root>/<ID>/seeded_out/change<k>.diff
# (applies to a scratch worktree of /repo HEAD, runs the repo tests, runs the demo
# with and without the change) and, if all holds, stores it as /verif/seeded/<ID>-<k>/.
set -u
ID=$1; K=$2; ROOT=${3:-/tmp/seed}; DK=${4:-$K}
SRC=$ROOT/$ID/seeded_out
[ -f "$SRC/change$K.diff" ] || { echo "no change$K.diff for $ID"; exit 3; }
WT=$(mktemp -d /tmp/val.XXXXXX); rmdir "$WT"
git -C /repo worktree add -q --detach "$WT" HEAD || exit 3
trap 'git -C /repo worktree remove --force "$WT" 2>/dev/null; rm -rf "$WT"' EXIT
cd "$WT"
PYTHONPATH="$WT" timeout 600 /venv/bin/python "$SRC/demo$K.py" >/tmp/val_out_$$ 2>&1; D0=$?
git apply "$SRC/change$K.diff" || { echo "$ID-$K: APPLY-FAILED"; exit 3; }
T=$(PYTHONPATH="$WT" /venv/bin/python -m pytest -q -p no:cacheprovider 2>&1 | tail -1)
PYTHONPATH="$WT" timeout 600 /venv/bin/python "$SRC/demo$K.py" >/tmp/val_out2_$$ 2>&1; D1=$?
echo "$ID-$K: demo_without=$D0 demo_with=$D1 tests: $T"
OK=0
if [ $D0 -eq 0 ] && [ $D1 -ne 0 ] && echo "$T" | grep -q "190 passed" && ! echo "$T" | grep -q failed; then OK=1; fi
if [ $OK -eq 1 ]; then
  DEST=/verif/seeded/$ID-$DK; mkdir -p "$DEST"
  cp "$SRC/change$K.diff" "$DEST/patch.diff"; cp "$SRC/demo$K.py" "$DEST/demo.py"
  /venv/bin/python - "$SRC/meta$K.json" "$DEST/meta.json" "$T" <<'PY'
import json,sys
m=json.load(open(sys.argv[1]))
m["validated"]={"demo_exit_without_change":0,"demo_exit_with_change":"non-zero","repo_tests":sys.argv[3].strip(),
  "how":"tools/validate_seed.sh: scratch worktree of /repo HEAD, git apply, pytest, demo with and without the change"}
json.dump(m,open(sys.argv[2],"w"),indent=1)
PY
  echo "$ID-$DK: KEPT"
else
  echo "$ID-$K: REJECTED"; tail -5 /tmp/val_out_$$ /tmp/val_out2_$$
fi
rm -f /tmp/val_out_$$ /tmp/val_out2_$$
