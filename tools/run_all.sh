#!/bin/bash
# tools/run_all.sh <tier> <seed> [parallel]: every check once; prints one line per check.
TIER=${1:-quick}; SEED=${2:-1}; PAR=${3:-5}
cd "$(dirname "$0")/.."
OUT=$(mktemp -d /tmp/runall.XXXXXX)
seq -w 1 20 | xargs -P "$PAR" -I{} bash -c 'VERIF_SEED='"$SEED"' VERIF_OUT='"$OUT"' ./check C{} '"$TIER"' > '"$OUT"'/C{}.log 2>&1; echo "C{} exit=$? $(grep -E "^property=" '"$OUT"'/C{}.log | cut -c1-150) $(grep -E "VIOLATION|HARNESS" '"$OUT"'/C{}.log | cut -c1-300)"' | sort
echo "logs in $OUT"
