#!/bin/bash
# Sensitivity protocol: tools/mutant.sh <patch-file> <ID> [tier] [--tests]
# Copies /repo to a scratch dir, applies the patch, (optionally runs the
# repository's tests), runs the property's check against the copy, removes it.
set -u
PATCH=$(readlink -f "$1"); ID=$2; TIER=${3:-quick}; TESTS=${4:-}
SCRATCH=$(mktemp -d /tmp/jslmut.XXXXXX)
trap 'rm -rf "$SCRATCH"' EXIT
rsync -a --exclude .git --exclude docs --exclude '__pycache__' /repo/ "$SCRATCH/"
( cd "$SCRATCH" && patch -p1 -s < "$PATCH" ) || { echo "PATCH-FAILED $PATCH"; exit 3; }
if [ "$TESTS" = "--tests" ]; then
  ( cd "$SCRATCH" && PYTHONPATH="$SCRATCH" /venv/bin/python -m pytest -q -x -p no:cacheprovider 2>&1 | tail -3 )
fi
cd "$(dirname "$0")/.."
JSL_REPO="$SCRATCH" VERIF_OUT="$SCRATCH/out" ./check "$ID" "$TIER" 2>&1 | grep -v WARNING | tail -4
echo "exit=${PIPESTATUS[0]}"
