#!/bin/bash
# tools/seed_matrix.sh [tier]: runs every seeded change against the check of
# its own property (and prints one line each); 8 in parallel.
TIER=${1:-quick}
cd "$(dirname "$0")/.."
ls seeded | xargs -P 8 -I{} bash -c 'n={}; id=${n%%-*}; r=$(tools/run_seeded.sh $n $id '"$TIER"' 2>&1 | grep -E "^\[|seeded=" | cut -c1-160 | tr "\n" " "); echo "$r"' | sort -t= -k2
