#!/venv/bin/python
"""Runs every seeded change against its own property's quick check (and the
cross-checks listed in CROSS), records the outcome in seeded/<name>/meta.json
and writes seeded/RESULTS.md."""
import json
import os
import subprocess
import sys
from concurrent.futures import ThreadPoolExecutor

ROOT = os.path.dirname(os.path.dirname(os.path.abspath(__file__)))
CROSS = {
    "C01-5": ["C09"], "C02-2": ["C20"], "C02-5": ["C20"], "C08-4": ["C05", "C12"], "C08-5": ["C07"],
    "C02-7": ["C09"], "C13-8": ["C18"], "C08-6": ["C04"], "C08-7": ["C18"], "C08-8": ["C07"],
    "C06-6": ["C07:thorough"],
    "C01-9": ["C09"], "C04-9": ["C05"], "C06-9": ["C04"], "C08-9": ["C07"], "C08-10": ["C04"],
    "C08-11": ["C18", "C13"], "C02-11": ["C20"],
    "C13-13": ["C10"], "C08-12": ["C07", "C08:thorough"],
    "C05-15": ["C07"], "C13-15": ["C10"], "C02-15": ["C20"],
    "C10-17": ["C09"], "C02-17": ["C10"], "C08-17": ["C02"],
    "C02-18": ["C20"], "C02-19": ["C20"], "C05-18": ["C07"], "C08-19": ["C07"],
    "C02-20": ["C20"], "C04-20": ["C12"], "C07-20": ["C11"], "C05-21": ["C05:thorough"],
    "C08-20": ["C07"], "C08-21": ["C07"], "C05-23": ["C07"],
}


def run(name, check):
    tier = "quick"
    if ":" in check:
        check, tier = check.split(":")
    out = subprocess.run(
        [os.path.join(ROOT, "tools", "run_seeded.sh"), name, check, tier],
        capture_output=True, text=True, env=dict(os.environ, SAVE_REPLAY="1"),
    ).stdout
    clause = ""
    for line in out.splitlines():
        if line.startswith("["):
            clause = line.split("]")[0] + "]"
    code = out.strip().splitlines()[-1].split("exit=")[-1] if out.strip() else "?"
    return name, check + ("" if tier == "quick" else " (thorough)"), code, clause


names = sorted(os.listdir(os.path.join(ROOT, "seeded")))
names = [n for n in names if os.path.isdir(os.path.join(ROOT, "seeded", n))]
only = set(sys.argv[1:])  # optional: re-run only these, keep the recorded outcome of the others
jobs = []
for n in names:
    if only and n not in only:
        continue
    own = n.split("-")[0]
    jobs.append((n, own))
    for c in CROSS.get(n, []):
        jobs.append((n, c))
with ThreadPoolExecutor(8) as ex:
    results = list(ex.map(lambda a: run(*a), jobs))
by = {}
for name, check, code, clause in results:
    by.setdefault(name, []).append((check, code, clause))
for n in names:
    if n not in by:
        old = json.load(open(os.path.join(ROOT, "seeded", n, "meta.json"))).get("checks_run", {})
        by[n] = [(r["check"], r["exit"], r["clause"]) for r in old.get("results", [])]
lines = ["| seeded change | breaks | summary | needs | quick check outcome |", "|---|---|---|---|---|"]
detected = 0
for n in names:
    mp = os.path.join(ROOT, "seeded", n, "meta.json")
    meta = json.load(open(mp))
    outcome = []
    hit = []
    for check, code, clause in by[n]:
        outcome.append(f"{check}: " + ("VIOLATION " + clause if code == "1" else f"exit {code}"))
        if code == "1":
            hit.append(check)
    meta["checks_run"] = {
        "how": "tools/run_seeded.sh <name> <check> quick (scratch copy of /repo with patch.diff applied, JSL_REPO pointing at it)",
        "results": [{"check": c, "exit": code, "clause": cl} for c, code, cl in by[n]],
        "detected_by": hit,
    }
    json.dump(meta, open(mp, "w"), indent=1)
    detected += bool(hit)
    lines.append(
        f"| {n} | {meta.get('property')} | {meta.get('summary','')[:160].replace('|','/')} | "
        f"{str(meta.get('needs',''))[:140].replace('|','/')} | {'; '.join(outcome)} |"
    )
open(os.path.join(ROOT, "seeded", "RESULTS.md"), "w").write(
    f"# Seeded changes: {detected} of {len(names)} detected by a quick check\n\n" + "\n".join(lines) + "\n"
)
print(f"{detected}/{len(names)} detected")
for n in names:
    if not json.load(open(os.path.join(ROOT, 'seeded', n, 'meta.json')))["checks_run"]["detected_by"]:
        print("MISSED", n)
