"""C07 - ready-operation filters prune soundly and never deadlock."""

from __future__ import annotations

from hypothesis import strategies as st

from job_shop_lib.dispatching import (
    Dispatcher,
    ReadyOperationsFilterType,
    create_composite_operation_filter,
    filter_dominated_operations,
    filter_non_idle_machines,
    filter_non_immediate_machines,
    filter_non_immediate_operations,
    ready_operations_filter_factory,
)

from .. import gen
from .. import fingerprint as fp
from ..lib import Driver, build_instance

ID = "C07"
RULE = (
    "Generated: instance (all shapes incl. flexible, zero durations) x "
    "composition of 1-4 built-in filters (each spelled as string, enum member "
    "or function; optionally nested - a composition used as a member of another; the caller may go on editing the list it passed) installed in the dispatcher x choice sequence (each step "
    "among available or among all ready operations); in EVERY state along the "
    "history, for every non-empty sub-list L of the ready operations (all "
    "subsets when <=4 ready, else the full list plus generated masks) each of "
    "the 4 built-in filters and the composition is called directly, "
    "optionally after current_time()/available_operations() were queried in "
    "that state. Oracle: result is a sub-sequence of L made of the identical "
    "objects, no duplicates, non-empty, input list untouched; result == the "
    "documented criterion recomputed by the independent model (both "
    "directions; for the dominated filter only when all durations in L are "
    "positive); composition == left-to-right application of the component "
    "specs; Dispatcher.available_operations() == spec on the full ready list; "
    "following available operations completes the schedule in num_operations "
    "steps. Non-trivial: the case contains a call where a filter removed >=1 "
    "and kept >=1 operation of a list with >=2."
)
RULE += (
    " Thorough tier additionally, split among the workers: small-scope exhaustive "
    "enumeration - all 29331 instances with job lengths (1) (2) (3) (1,1) (1,2) "
    "(2,1) (2,2) (1,1,1) (1,1,2) (1,2,1) (2,1,1), machine sets {[0],[1],[0,1]}, "
    "durations {0,1,3} - with every dispatch history of each (jsverif/smallscope.py)."
)
BUDGET = {"quick": 500, "thorough": 6000}
ASSUMPTIONS = [
    "criteria as written in jsverif/model.py (f_* methods) from the filter docstrings and the property statement",
    "dominated filter with a zero duration in its input: only sub-list and non-emptiness are asserted",
]

FUNCS = {
    "dominated_operations": filter_dominated_operations,
    "non_immediate_machines": filter_non_immediate_machines,
    "non_idle_machines": filter_non_idle_machines,
    "non_immediate_operations": filter_non_immediate_operations,
}


def spell(name, how):
    if how == 0:
        return name
    if how == 1:
        return ReadyOperationsFilterType(name)
    return FUNCS[name]


def strategy(tier):
    big = tier == "thorough"
    inst = gen.instances(
        max_jobs=6 if big else 5,
        max_ops=5,
        max_machines=5,
        max_total=30 if big else 20,
        benchmarks=("ft06",),
        big_ok=2,
    )
    comp = st.lists(
        st.tuples(st.sampled_from(gen.FILTER_NAMES), st.integers(0, 2)).map(list),
        min_size=1,
        max_size=4,
    )
    step = st.tuples(st.integers(0, 7), st.integers(0, 5), st.integers(0, 3)).map(list)
    return st.fixed_dictionaries(
        {
            "inst": inst,
            "comp": comp,
            "nest": gen.pick([0, 1, 0, 2]),
            "history": gen.sized_lists(step, 30),
            "masks": st.lists(st.integers(1, 63), max_size=4),
        }
    )


def structural(ctx, name, lst, before, result, where):
    ctx.check(
        isinstance(result, list),
        "not-a-list",
        f"{where}: {name} returned {type(result).__name__}",
    )
    ctx.check(
        len(lst) == len(before) and all(a is b for a, b in zip(lst, before)),
        "input-mutated",
        f"{where}: {name} modified its input list",
    )
    pos = 0
    for o in result:
        while pos < len(before) and before[pos] is not o:
            pos += 1
        if pos == len(before):
            ctx.fail(
                "not-sublist",
                f"{where}: {name}({[fp.jp(x) for x in before]}) = "
                f"{[fp.jp(x) for x in result]} is not a sub-sequence of its input "
                "(foreign, duplicated or reordered operation)",
            )
            return
        pos += 1
    ctx.check(
        bool(result) or not before,
        "empty-result",
        f"{where}: {name}({[fp.jp(x) for x in before]}) returned an empty list",
    )


def worker_cases(tier, index, n):
    if tier != "thorough":
        return
    from .. import smallscope

    for inst in smallscope.shard(index, n):
        yield {"mode": "small_scope", "inst": inst}


def _small_scope(case, ctx):
    """Every reachable state of the instance x every non-empty sub-list of the
    ready operations x the four filters and all 16 ordered pairs."""
    from .. import smallscope
    from ..lib import ref

    inst = case["inst"]
    instance = build_instance(inst)
    pairs = [(a, b) for a in gen.FILTER_NAMES for b in gen.FILTER_NAMES]
    composites = {pr: create_composite_operation_filter(list(pr)) for pr in pairs}
    for prefix in [[]] + smallscope.all_prefixes(inst):
        d = Dispatcher(instance)
        m = smallscope.replay(inst, instance, prefix, d)
        ready = m.ready()
        if (len(prefix) + len(ready)) % 2:
            d.current_time()  # cached values present in half of the states
        for mask in range(1, 1 << len(ready)):
            sub = [ready[i] for i in range(len(ready)) if (mask >> i) & 1]
            where = f"history {prefix}, L={sub}"
            singles = {}
            for nm, func in FUNCS.items():
                lst = [instance.jobs[j][p] for (j, p) in sub]
                before = list(lst)
                res = func(d, lst)
                structural(ctx, nm, lst, before, res, where)
                got = [fp.jp(o) for o in res]
                singles[nm] = got
                want = m.apply_filter(nm, sub)
                if want is not None:
                    ctx.check(got == want, "criterion:" + nm, f"{where}: {nm} kept {got}, criterion keeps {want}")
                else:
                    bad = [o_ for o_ in m.dominated_positive(sub) if o_ in got]
                    ctx.check(not bad, "criterion:dominated_operations:kept-dominated", f"{where}: {nm} kept {got}; {bad} have positive duration and are dominated")
                ctx.count("filter_calls")
            for (a, b), comp in composites.items():
                lst = [instance.jobs[j][p] for (j, p) in sub]
                before = list(lst)
                res = comp(d, lst)
                structural(ctx, f"composite[{a},{b}]", lst, before, res, where)
                first = singles[a]
                second = [fp.jp(o) for o in FUNCS[b](d, [instance.jobs[j][p] for (j, p) in first])]
                ctx.check(
                    [fp.jp(o) for o in res] == second,
                    "composition",
                    f"{where}: composite [{a},{b}] kept {[fp.jp(o) for o in res]}, {b}({a}(L)) = {second}",
                )
        ctx.count("small_scope_nodes")
    ctx.count("small_scope_instances")
    ctx.label("mode=small_scope")
    ctx.nontrivial = sum(len(r) for r in inst["durations"]) >= 3


def check_case(case, ctx):
    if case.get("mode") == "small_scope":
        _small_scope(case, ctx)
        return
    inst, comp, history, masks = case["inst"], case["comp"], case["history"], case["masks"]
    instance = build_instance(inst)
    names = [c[0] for c in comp]
    members = [spell(n, h) for n, h in comp]
    nest = case.get("nest", 0)
    if nest and len(members) >= 1:
        # compositions are filters themselves and may be members of others
        h = (len(members) + 1) // 2
        head = create_composite_operation_filter(members[:h])
        tail = members[h:]
        if nest == 2 and tail:
            tail = [create_composite_operation_filter(tail)]
        members = [head] + tail
        ctx.label("nested_composition")
    composite = create_composite_operation_filter(members)
    if len(history) % 2:
        # the caller goes on using its own list (to derive a stricter
        # pipeline); the composition built before is not affected
        members.append("non_immediate_operations")
        members.reverse()
        create_composite_operation_filter(members)
        ctx.label("callers_list_edited")
    for n, h in comp:
        ctx.check(
            ready_operations_filter_factory(spell(n, h)) is FUNCS[n],
            "factory",
            f"ready_operations_filter_factory({spell(n, h)!r}) is not the {n} filter",
        )
    d = Dispatcher(instance, composite)
    drv = Driver(inst, names, instance=instance, dispatcher=d)
    m = drv.model
    n_ops = m.n_ops
    interesting = 0

    def spec_chain(ops_jp, where):
        """Expected result of the composition on ops_jp (None-free): specs
        applied left to right; where a spec is undefined the real single
        filter's (structurally validated) result is used for that stage."""
        cur = list(ops_jp)
        for nm in names:
            nxt = m.apply_filter(nm, cur)
            if nxt is None:
                lst = [drv.op(j, p) for (j, p) in cur]
                before = list(lst)
                res = FUNCS[nm](d, lst)
                structural(ctx, nm, lst, before, res, where + " (stage)")
                nxt = [fp.jp(o) for o in res]
                ctx.count("undefined_stage")
            cur = nxt
        return cur

    def check_state(k, prequery):
        nonlocal interesting
        ready = m.ready()
        got_ready = [fp.jp(o) for o in d.raw_ready_operations()]
        ctx.check(got_ready == ready, "raw-ready", f"state {k}: raw ready {got_ready} != {ready}")
        if prequery & 1:
            d.current_time()
        if prequery & 2:
            d.available_operations()
            d.ongoing_operations()
        if len(ready) <= 4:
            subsets = [
                [ready[i] for i in range(len(ready)) if (mask >> i) & 1]
                for mask in range(1, 1 << len(ready))
            ]
        else:
            subsets = [ready] + [
                [ready[i] for i in range(len(ready)) if (mask >> i) & 1] for mask in masks
            ]
            subsets = [s for s in subsets if s]
        for sub in subsets:
            where = f"state {k} (history {[(j, p, mm) for (j, p, mm, _s, _e) in m.order]}), L={sub}"
            for nm, func in FUNCS.items():
                lst = [drv.op(j, p) for (j, p) in sub]
                before = list(lst)
                res = func(d, lst)
                ctx.count("filter_calls")
                structural(ctx, nm, lst, before, res, where)
                got = [fp.jp(o) for o in res]
                want = m.apply_filter(nm, sub)
                if want is None:
                    ctx.count("dominated_zero_structural_only")
                    # a zero duration makes the literal criterion unsatisfiable
                    # for the zero-duration operation itself, but an operation
                    # with POSITIVE duration that is dominated must still go
                    bad = [o_ for o_ in m.dominated_positive(sub) if o_ in got]
                    ctx.check(
                        not bad,
                        "criterion:dominated_operations:kept-dominated",
                        f"{where}: {nm} kept {got}; {bad} have positive duration and are dominated",
                    )
                else:
                    ctx.check(
                        got == want,
                        "criterion:" + nm,
                        f"{where}: {nm} kept {got}, criterion keeps {want}",
                    )
                if len(sub) >= 2 and 0 < len(got) < len(sub):
                    interesting += 1
            lst = [drv.op(j, p) for (j, p) in sub]
            before = list(lst)
            res = composite(d, lst)
            structural(ctx, "composite" + str(names), lst, before, res, where)
            want = spec_chain(sub, where)
            got = [fp.jp(o) for o in res]
            ctx.check(
                got == want,
                "composition",
                f"{where}: composite {names} kept {got}, left-to-right specs keep {want}",
            )
        # the dispatcher's own view
        avail = [fp.jp(o) for o in d.available_operations()]
        want = spec_chain(ready, f"state {k} available_operations")
        ctx.check(
            avail == want,
            "available_operations",
            f"state {k}: available_operations() = {avail}, spec {want} (filters {names})",
        )
        ctx.check(
            bool(avail) or not ready,
            "deadlock",
            f"state {k}: no available operation although {ready} are ready",
        )

    for k in range(n_ops):
        a, b, r = history[k] if k < len(history) else (0, 0, 0)
        check_state(k, r)
        pool = "ready" if (a & 1 and r & 2) else "available"
        drv.step(a >> 1, b, pool)
    check_state(n_ops, 3)
    ctx.check(d.schedule.is_complete(), "not-complete", "schedule incomplete after num_operations steps")
    ctx.count("prunings", interesting)
    ctx.label(*gen.inst_labels(inst))
    ctx.label(*["uses=" + n for n in set(names)])
    ctx.nontrivial = interesting > 0
