"""C18 - the environments honour the Gymnasium contract."""

from __future__ import annotations

import numpy as np
from hypothesis import strategies as st

from job_shop_lib.dispatching import DispatcherObserverConfig
from job_shop_lib.generation import GeneralInstanceGenerator
from job_shop_lib.graphs import NodeType
from job_shop_lib.graphs.graph_updaters import GraphUpdater, ResidualGraphUpdater
from job_shop_lib.reinforcement_learning import (
    MultiJobShopGraphEnv,
    SingleJobShopGraphEnv,
)

from .. import gen, obs
from .. import fingerprint as fp
from ..lib import build_filter, build_instance

ID = "C18"
RULE = (
    "Generated: graph builder (4) x feature-observer config list (generated "
    "sub-list and order of the 7 types with generated feature-type subsets, "
    "as enum / string / class) x reward class x updater flags x filter x "
    "use_padding x graph updater (ResidualGraphUpdater with generated flags; single env also a user-written GraphUpdater that removes edges but never nodes) x {single env over a generated instance with positive "
    "durations, flexible allowed | multi env over a GeneralInstanceGenerator "
    "with generated ranges, one machine per operation, no recirculation} x action sequence (legal "
    "decisions: any job with operations left, explicit eligible machine id or "
    "-1 for single-machine operations) x 1-4 episodes, some abandoned "
    "mid-way. Oracle after every reset / step: with padding "
    "observation_space.contains(obs) plus explicit key / shape / dtype / bound "
    "checks; the real part of removed_nodes equals graph.removed_nodes and marks as present exactly the nodes held by the networkx graph (single env: optionally the caller pruned source / sink / global / machine / job nodes through remove_node before handing the graph over), of "
    "edge_index equals the multiset of current graph edges (no -1 column "
    "before a real one), feature matrices equal the composite observer's; "
    "padding only at the end with the declared fill (True / -1); done == "
    "schedule.is_complete(), truncated is False; a step puts the job's next operation on the machine named in the decision; every legal (job, machine) "
    "and (job, -1) is in action_space. Multi env after EVERY reset: inner "
    "env's updater class and flags, reward class, filter, padding flag, "
    "render mode and feature column names equal the constructor's; instance "
    "size within the generator's ranges. Non-trivial: >=2 feature observers, "
    "a non-default updater flag or reward, a node removed before the end of "
    "an episode; multi env: >=2 resets."
)
BUDGET = {"quick": 500, "thorough": 6000}
ASSUMPTIONS = [
    "space membership is asserted with use_padding=True (without padding shapes necessarily shrink)",
    "multi env: generators with one machine per operation and without recirculation (every instance then uses all M machine ids, so the maximum-size sample instance bounds node and edge counts); other generators are the recorded known finding",
]


def fixed_cases(tier):
    """A 12 x 10 instance (120 operations; 1410 edges in the disjunctive
    graph): sizes no generated case reaches, one whole episode each."""
    big_inst = gen.big_classic(12, 10)
    return [
        {
            "kind": "single",
            "inst": big_inst,
            "builder": b,
            "features": [["is_ready", None, 0], ["duration", None, 1]],
            "reward": "makespan",
            "flags": [True, True],
            "filters": "default",
            "padding": True,
            "episodes": [[[[(5 * k + 2) % 16, 0] for k in range(120)], None]],
            "prune": [],
        }
        for b in ("disjunctive", "agent_task")
    ]


def strategy(tier):
    big = tier == "thorough"
    kw = dict(max_jobs=4, max_ops=4, max_machines=4, max_total=14 if big else 10, zero_ok=False)
    inst = gen.weighted((2, gen.instances(**kw)), (1, gen.instances(flexible=True, **kw)))
    common = {
        "builder": gen.pick(sorted(obs.BUILDERS)),
        "features": obs.feature_configs(min_size=1, max_size=5),
        "reward": st.sampled_from(sorted(obs.REWARDS)),
        "flags": gen.weighted((1, st.just([True, True])), (1, st.tuples(st.booleans(), st.booleans()).map(list))),
        "filters": st.one_of(
            st.just("default"),
            gen.filter_configs(max_len=2),
            # user-written filters, one of which may hide every ready operation
            st.sampled_from([["custom_reserve_machine0"], ["custom_hide_earliest"], ["custom_last_job_only", "custom_reserve_machine0"]]),
        ),
        "padding": gen.weighted((4, st.just(True)), (1, st.just(False))),
        "episodes": st.lists(
            st.tuples(gen.histories(max_len=16, max_a=15), st.one_of(st.none(), st.integers(0, 12))).map(list),
            min_size=1,
            max_size=4,
        ),
    }
    single = st.fixed_dictionaries(
        dict(
            common,
            kind=st.just("single"),
            inst=inst,
            prune=gen.weighted((3, st.just([])), (1, st.lists(st.integers(0, 30), min_size=1, max_size=2))),
            updater=gen.pick([None, None, "arc_pruner"]),
        )
    )

    @st.composite
    def gen_params(draw):
        j_lo = draw(st.integers(1, 3))
        j_hi = draw(st.integers(j_lo, 4))
        m_lo = draw(st.integers(1, 3))
        m_hi = draw(st.integers(m_lo, 4))
        return {
            "num_jobs": [j_lo, j_hi],
            "num_machines": [m_lo, m_hi],
            "duration_range": [1, draw(st.integers(1, 9))],
            # Known finding C18-multi-env-size (see known_findings.json): with
            # recirculation or several machines per operation an instance
            # need not use every machine id, so the max-size sample instance
            # the multi env derives its spaces from is not an upper bound and
            # reset() can raise.  Excluded by construction; the witness case
            # is replayed from known_findings.json on every run.
            "machines_per_operation": 1,
            "allow_recirculation": False,
            "seed": draw(st.integers(0, 10**6)),
        }

    multi = st.fixed_dictionaries(dict(common, kind=st.just("multi"), generator=gen_params()))
    return gen.weighted((3, single), (2, multi))


class ArcPruner(GraphUpdater):
    """A user-written graph updater (the environments take any GraphUpdater
    through graph_updater_config): it removes the arcs that point from other
    jobs' operations into the operation just dispatched - edges change, no
    node is ever removed."""

    def update(self, scheduled_operation):
        g = self.job_shop_graph
        op = scheduled_operation.operation
        node_id = op.operation_id
        if node_id not in g.graph:  # (swept away as an isolated node)
            return
        for u in list(g.graph.predecessors(node_id)):
            src = g.nodes[u]
            if src.node_type == NodeType.OPERATION and src.operation.job_id != op.job_id:
                g.graph.remove_edge(u, node_id)


def env_kwargs(case):
    if case.get("updater") == "arc_pruner" and case["kind"] == "single":
        kw = env_kwargs(dict(case, updater=None))
        kw["graph_updater_config"] = DispatcherObserverConfig(ArcPruner)
        return kw
    kw = {
        "feature_observer_configs": [obs.observer_config(c) for c in case["features"]],
        "reward_function_config": DispatcherObserverConfig(obs.REWARDS[case["reward"]]),
        "graph_updater_config": DispatcherObserverConfig(
            ResidualGraphUpdater,
            kwargs={
                "remove_completed_machine_nodes": case["flags"][0],
                "remove_completed_job_nodes": case["flags"][1],
            },
        ),
        "use_padding": case["padding"],
    }
    if case["filters"] != "default":
        kw["ready_operations_filter"] = build_filter(case["filters"])
    return kw


def check_space_explicit(ctx, space, ob, where):
    ctx.check(set(ob) == set(space.spaces), "obs-keys", f"{where}: observation keys {sorted(ob)} vs space {sorted(space.spaces)}")
    for key, sub in space.spaces.items():
        a = ob[key]
        ctx.check(isinstance(a, np.ndarray), "obs-type", f"{where}: obs[{key}] is {type(a).__name__}")
        ctx.check(
            tuple(a.shape) == tuple(sub.shape),
            "obs-shape",
            f"{where}: obs[{key}].shape {a.shape} != declared {sub.shape}",
        )
        if key == "removed_nodes":
            ctx.check(bool(np.all((a == 0) | (a == 1))), "obs-bounds", f"{where}: removed_nodes not binary")
        elif key == "edge_index":
            n_nodes = space.spaces["removed_nodes"].shape[0]
            ctx.check(
                np.issubdtype(a.dtype, np.integer) and bool(np.all(a >= -1)) and bool(np.all(a < n_nodes)),
                "obs-bounds",
                f"{where}: edge_index dtype {a.dtype}, min {a.min() if a.size else None}, max {a.max() if a.size else None}, nodes {n_nodes}",
            )
        else:
            ctx.check(a.dtype == np.float32, "obs-dtype", f"{where}: obs[{key}] dtype {a.dtype}")
            ctx.check(
                bool(np.all(a >= sub.low)) and bool(np.all(a <= sub.high)),
                "obs-bounds",
                f"{where}: obs[{key}] outside the declared Box bounds [{sub.low.min()}, {sub.high.max()}]: min {a.min() if a.size else None}",
            )
    ctx.check(space.contains(ob), "obs-not-in-space", f"{where}: observation_space.contains(obs) is False")


def check_mirror(ctx, inner, ob, where, padded_total=None):
    """obs (possibly padded beyond the inner env's sizes) mirrors the inner
    env's graph and composite features; padding only at the end."""
    g = inner.job_shop_graph
    n_nodes = len(g.nodes)
    rn = np.asarray(ob["removed_nodes"]).astype(bool)
    ctx.check(
        rn[:n_nodes].tolist() == [bool(x) for x in g.removed_nodes],
        "removed-nodes-mirror",
        f"{where}: obs removed_nodes {rn[:n_nodes].tolist()} != graph {list(g.removed_nodes)}",
    )
    present = set(g.graph.nodes())
    ctx.check(
        [i for i in range(n_nodes) if not rn[i]] == sorted(present),
        "removed-nodes-graph",
        f"{where}: obs removed_nodes marks {[i for i in range(n_nodes) if not rn[i]]} as present, the graph holds nodes {sorted(present)}",
    )
    ctx.check(bool(np.all(rn[n_nodes:])), "removed-nodes-padding", f"{where}: padding of removed_nodes is not all True: {rn[n_nodes:].tolist()}")
    ei = np.asarray(ob["edge_index"])
    ctx.check(ei.ndim == 2 and ei.shape[0] == 2 or ei.size == 0, "edge-index-shape", f"{where}: edge_index shape {ei.shape}")
    edges = sorted((int(u), int(v)) for u, v in g.graph.edges())
    if ei.size == 0:
        cols = []
    else:
        cols = [(int(ei[0, c]), int(ei[1, c])) for c in range(ei.shape[1])]
    real = [c for c in cols if c != (-1, -1)]
    k = len(real)
    ctx.check(
        cols[:k] == real and all(c == (-1, -1) for c in cols[k:]),
        "edge-index-padding",
        f"{where}: padding (-1) is not confined to the end of edge_index: {cols}",
    )
    ctx.check(
        sorted(real) == edges,
        "edge-index-mirror",
        f"{where}: edge_index holds {len(real)} edges, graph has {len(edges)}; "
        f"missing {sorted(set(edges) - set(real))[:5]}, extra {sorted(set(real) - set(edges))[:5]}",
    )
    comp = inner.composite_observer
    for ft, mat in comp.features.items():
        a = np.asarray(ob[ft.value])
        rows = mat.shape[0]
        ctx.check(
            a.shape[1:] == mat.shape[1:] and np.array_equal(a[:rows], mat),
            "features-mirror",
            f"{where}: obs[{ft.value}] does not equal the composite observer's matrix",
        )
        ctx.check(
            bool(np.all(a[rows:] == -1)),
            "features-padding",
            f"{where}: padding rows of obs[{ft.value}] are not -1: {a[rows:].tolist()}",
        )
    extra = set(ob) - {"removed_nodes", "edge_index"} - {ft.value for ft in comp.features}
    ctx.check(not extra, "obs-extra-keys", f"{where}: unexpected observation keys {extra}")


def check_actions(ctx, env, inner, where):
    d = inner.dispatcher
    inst = inner.instance
    for j, job in enumerate(inst.jobs):
        nxt = d.job_next_operation_index[j]
        if nxt >= len(job):
            continue
        op = job[nxt]
        for m in op.machines:
            a = np.array([j, m])
            ctx.check(env.action_space.contains(a), "action-not-in-space", f"{where}: legal action ({j},{m}) not in {env.action_space}")
        if len(op.machines) == 1:
            ctx.check(env.action_space.contains(np.array([j, -1])), "action-not-in-space", f"{where}: legal action ({j},-1) not in {env.action_space}")


def legal_action(inner, a, b, raw, ctx=None):
    d = inner.dispatcher
    pool = d.raw_ready_operations() if raw else (d.available_operations() or d.raw_ready_operations())
    if not pool and ctx is not None:
        ctx.fail(
            "no-ready-operation",
            f"the environment's dispatcher reports no ready operation although its schedule holds "
            f"{d.schedule.num_scheduled_operations} of {inner.instance.num_operations} operations",
        )
    op = pool[a % len(pool)]
    if len(op.machines) == 1 and b % 2:
        return (op.job_id, -1)
    return (op.job_id, op.machines[(b // 2) % len(op.machines)])


def run_episodes(ctx, case, env, get_inner, multi, after_reset):
    removed_early = False
    for ep, (hist, cut) in enumerate(case["episodes"]):
        ob, info = env.reset()
        inner = get_inner()
        where = f"episode {ep} reset"
        after_reset(inner, where)
        ctx.check(isinstance(info, dict), "reset-info", f"{where}: info is {type(info).__name__}")
        if case["padding"]:
            check_space_explicit(ctx, env.observation_space, ob, where)
        check_mirror(ctx, inner, ob, where)
        check_actions(ctx, env, inner, where)
        n = inner.instance.num_operations
        steps = n if cut is None else min(cut, n)
        for k in range(steps):
            a, b = hist[k] if k < len(hist) else (0, 0)
            if not multi and k == 1 and len(hist) % 3 == 0:
                # a planner deep-copies the environment, looks ahead on the
                # copy, and the copy's observations mirror ITS OWN graph
                import copy

                clone = copy.deepcopy(env)
                act_c = legal_action(clone, 0, 0, 1, ctx)
                ob_c, _r, _d, _t, _i = clone.step(act_c)
                check_mirror(ctx, clone, ob_c, f"episode {ep} step {k}: deep copy of the env after its own step {act_c}")
                ob_o = env.get_observation()
                check_mirror(ctx, env, ob_o, f"episode {ep} step {k}: original env after its deep copy stepped")
                ctx.count("env_deepcopies")
            act = legal_action(inner, a >> 1, b, a & 1, ctx)
            op_chosen = inner.dispatcher.instance.jobs[act[0]][inner.dispatcher.job_next_operation_index[act[0]]]
            machine_chosen = act[1] if act[1] != -1 else op_chosen.machines[0]
            ob, reward, done, truncated, info = env.step(act)
            where = f"episode {ep} step {k} action {act}"
            # the documented meaning of a decision: "the job ID and the machine
            # ID in which to schedule the operation"
            row = inner.dispatcher.schedule.schedule[machine_chosen]
            ctx.check(
                bool(row) and fp.jp(row[-1].operation) == fp.jp(op_chosen),
                "decision-not-executed",
                f"{where}: the job's next operation {fp.jp(op_chosen)} (eligible on {list(op_chosen.machines)}) is not the last "
                f"operation on machine {machine_chosen}; machine rows end with "
                f"{[(fp.jp(r[-1].operation) if r else None) for r in inner.dispatcher.schedule.schedule]}",
            )
            ctx.check(done is inner.dispatcher.schedule.is_complete() or done == inner.dispatcher.schedule.is_complete(), "done-flag", f"{where}: done={done!r}")
            ctx.check(done == (k == n - 1), "done-flag", f"{where}: done={done!r} after {k + 1}/{n} dispatches")
            ctx.check(truncated is False, "truncated", f"{where}: truncated={truncated!r}")
            ctx.check(reward == inner.reward_function.last_reward, "step-reward", f"{where}: reward {reward}")
            ctx.check(
                isinstance(info, dict) and "available_operations" in info and "feature_names" in info,
                "step-info",
                f"{where}: info keys {sorted(info) if isinstance(info, dict) else info}",
            )
            if case["padding"]:
                check_space_explicit(ctx, env.observation_space, ob, where)
            check_mirror(ctx, inner, ob, where)
            if not done:
                check_actions(ctx, env, inner, where)
            if any(inner.job_shop_graph.removed_nodes) and k < n - 1:
                removed_early = True
            ctx.count("steps")
    return removed_early


def check_case(case, ctx):
    kw = env_kwargs(case)
    builder = obs.BUILDERS[case["builder"]]
    if case.get("updater") == "arc_pruner" and case["kind"] == "single" and len(case["episodes"]) % 2:
        # (the graph in which operations of different jobs are linked)
        builder = obs.BUILDERS["disjunctive"]
    if case["kind"] == "single":
        instance = build_instance(case["inst"])
        graph = builder(instance)
        if case.get("prune"):
            # the caller prunes nodes it has no use for (source / sink,
            # global, machine or job nodes) through the public remove_node
            # before handing the graph over
            for x in case["prune"]:
                ids = [
                    node.node_id
                    for node in graph.nodes
                    if not graph.is_removed(node) and node.node_type != NodeType.OPERATION
                ]
                if ids:
                    graph.remove_node(ids[x % len(ids)])
            ctx.label("pruned_graph")
        if case.get("updater"):
            ctx.label("updater=" + case["updater"])
        env = SingleJobShopGraphEnv(graph, **kw)
        removed_early = run_episodes(ctx, case, env, lambda: env, False, lambda inner, where: None)
        ctx.label(*gen.inst_labels(case["inst"]))
        multi_ok = True
    else:
        gp = dict(case["generator"])
        if case["builder"] == "disjunctive":
            gp["allow_recirculation"] = False
        generator = GeneralInstanceGenerator(
            num_jobs=tuple(gp["num_jobs"]),
            num_machines=tuple(gp["num_machines"]),
            duration_range=tuple(gp["duration_range"]),
            machines_per_operation=gp["machines_per_operation"],
            allow_recirculation=gp["allow_recirculation"],
            seed=gp["seed"],
        )
        env = MultiJobShopGraphEnv(generator, graph_initializer=builder, **kw)
        if gp["seed"] % 3 == 0:
            # configuration changed through the public setters after construction
            from job_shop_lib.dispatching import filter_non_immediate_machines

            env.ready_operations_filter = filter_non_immediate_machines
            ctx.label("filter_set_via_setter")
        want_filter = env.ready_operations_filter
        first_names = {ft: list(v) for ft, v in env.single_job_shop_graph_env.composite_observer.column_names.items()}
        seen_sizes = set()

        def after_reset(inner, where):
            upd = inner.graph_updater
            ctx.check(type(upd) is ResidualGraphUpdater, "multi-config:updater-class", f"{where}: updater {type(upd).__name__}")
            ctx.check(
                [upd.remove_completed_machine_nodes, upd.remove_completed_job_nodes] == case["flags"],
                "multi-config:updater-flags",
                f"{where}: updater flags {[upd.remove_completed_machine_nodes, upd.remove_completed_job_nodes]} != constructor's {case['flags']}",
            )
            ctx.check(type(inner.reward_function) is obs.REWARDS[case["reward"]], "multi-config:reward", f"{where}: reward {type(inner.reward_function).__name__}")
            ctx.check(inner.dispatcher.ready_operations_filter is want_filter, "multi-config:filter", f"{where}: filter changed")
            ctx.check(inner.use_padding == case["padding"], "multi-config:padding", f"{where}: use_padding {inner.use_padding}")
            ctx.check(inner.render_mode is None, "multi-config:render-mode", f"{where}: render mode {inner.render_mode!r}")
            names = {ft: list(v) for ft, v in inner.composite_observer.column_names.items()}
            ctx.check(names == first_names, "multi-config:features", f"{where}: feature columns {names} != {first_names}")
            i = inner.instance
            n_m = len(i.jobs[0])
            ctx.check(
                gp["num_jobs"][0] <= i.num_jobs <= gp["num_jobs"][1]
                and gp["num_machines"][0] <= n_m <= gp["num_machines"][1]
                and all(len(job) == n_m for job in i.jobs),
                "multi-instance-range",
                f"{where}: instance {i.num_jobs}x{n_m} outside ranges {gp['num_jobs']} x {gp['num_machines']}",
            )
            seen_sizes.add((i.num_jobs, n_m))

        removed_early = run_episodes(
            ctx, case, env, lambda: env.single_job_shop_graph_env, True, after_reset
        )
        multi_ok = len(case["episodes"]) >= 2
        ctx.label(f"multi_sizes={min(len(seen_sizes), 3)}")
    kinds = {c[0] for c in case["features"]}
    ctx.label("kind=" + case["kind"], "builder=" + case["builder"], "padding" if case["padding"] else "no_padding")
    ctx.label(*["obs=" + k for k in kinds])
    nondefault = case["flags"] != [True, True] or case["reward"] != "makespan"
    ctx.nontrivial = len(case["features"]) >= 2 and nondefault and removed_early and multi_ok
