"""C09 - rejected requests change nothing."""

from __future__ import annotations

from hypothesis import strategies as st

from job_shop_lib.dispatching import (
    Dispatcher,
    HistoryObserver,
    UnscheduledOperationsObserver,
)
from job_shop_lib.graphs.graph_updaters import ResidualGraphUpdater
from job_shop_lib.reinforcement_learning import (
    IdleTimeReward,
    MakespanReward,
    SingleJobShopGraphEnv,
)
from job_shop_lib.dispatching import DispatcherObserverConfig

from .. import gen, obs
from ..lib import build_filter, build_instance, ref

ID = "C09"
RULE = (
    "Generated: instance (all shapes) x optional filter x graph builder x "
    "feature-observer list x event list of valid dispatches interleaved with "
    "injected invalid requests of 8 kinds: dispatch of (i) an already "
    "scheduled operation (incl. the last one of a finished job), (ii) an "
    "operation that is not yet next, (iii) an in-range ineligible machine, "
    "(iv) out-of-range machine ids (>= M, <= -M-1, wrapping -M..-1), (v) "
    "machine_id=None for a multi-machine operation; environment step for (vi) "
    "a job with no operations left (also after the episode is complete), "
    "(vii) an ineligible machine (in range, beyond the range, negative other than -1), (viii) (job, -1) for a multi-machine "
    "operation; and, through MultiJobShopGraphEnv, steps naming a finished "
    "job, a machine or a job that does not exist in the current instance; optionally other public calls failed the documented way earlier in the same process (deadlocking job sequences, a scheduled operation on an ineligible machine). Observers: all chosen feature observers + composite, history, "
    "unscheduled, both rewards, residual graph updater. Oracle: each injected "
    "request raises; deep snapshot (tracking vectors, schedule, all queries, "
    "every observer's public state, env observation) before == after; and a "
    "twin run of the same events WITHOUT the invalid requests yields the same "
    "snapshot after every valid step. Non-trivial: >=2 rejected requests of "
    "different kinds, one of them after >=2 dispatches and followed by a valid "
    "dispatch."
)
BUDGET = {"quick": 250, "thorough": 3000}
ASSUMPTIONS = [
    "any exception type counts as 'raises' (the statement does not name one)",
]

KINDS = ["scheduled", "not_next", "ineligible", "out_of_range", "none_machine",
         "env_finished_job", "env_ineligible", "env_minus_one"]


def fixed_cases(tier):
    """Twelve jobs (more than ten operations ready at once): invalid requests
    of every kind between valid dispatches."""
    events = []
    for k in range(16):
        events.append(["d", (3 * k + 1) % 8, k % 2])
        events.append(["x", k % len(KINDS), 2 * k + 1, k])
        if k % 4 == 0:
            events.append(["x", 1, k, 0])  # not_next
    return [
        {
            "inst": gen.many_ready(12, 3),
            "filters": None,
            "builder": "agent_task",
            "features": [["is_ready", None, 0], ["remaining_operations", None, 1]],
            "events": events,
            "prelude": False,
        }
    ]


def strategy(tier):
    big = tier == "thorough"
    kw = dict(max_jobs=4, max_ops=4, max_machines=4, max_total=16 if big else 12)
    inst = gen.weighted(
        (1, gen.instances(**kw)), (1, gen.instances(flexible=True, **kw))
    )
    d = st.tuples(st.just("d"), st.integers(0, 7), st.integers(0, 5)).map(list)
    x = st.tuples(st.just("x"), st.integers(0, 7), st.integers(0, 40), st.integers(0, 40)).map(list)
    return st.fixed_dictionaries(
        {
            "inst": inst,
            "filters": gen.filter_configs(max_len=2),
            "builder": gen.pick(sorted(obs.BUILDERS)),
            "features": obs.feature_configs(min_size=1, max_size=4),
            "events": gen.sized_lists(gen.weighted((3, d), (2, x)), 30),
            "prelude": gen.pick([False, True, False]),
        }
    )


class World:
    """Dispatcher with a full observer set + an environment over the same
    instance."""

    def __init__(self, case):
        inst = case["inst"]
        self.inst = inst
        self.instance = build_instance(inst)
        filt = build_filter(case["filters"])
        self.d = Dispatcher(self.instance, filt)
        self.feature_observers = [
            obs.make_feature_observer(self.d, cfg) for cfg in case["features"]
        ]
        from job_shop_lib.dispatching.feature_observers import CompositeFeatureObserver

        self.composite = CompositeFeatureObserver(
            self.d, feature_observers=list(self.feature_observers)
        )
        self.history = HistoryObserver(self.d)
        self.unscheduled = UnscheduledOperationsObserver(self.d)
        self.mk = MakespanReward(self.d)
        self.idle = IdleTimeReward(self.d)
        self.updater = ResidualGraphUpdater(
            self.d, obs.BUILDERS[case["builder"]](self.instance)
        )
        self.env_instance = build_instance(inst)
        self.env = SingleJobShopGraphEnv(
            obs.BUILDERS[case["builder"]](self.env_instance),
            [obs.observer_config(cfg) for cfg in case["features"]],
            reward_function_config=DispatcherObserverConfig(IdleTimeReward),
            ready_operations_filter=filt,
            render_mode=[None, "save_gif", "human"][len(case["events"]) % 3],
        )
        if len(case["events"]) % 2:
            self.env.reset()
        self.last_step = None

    def snapshot(self):
        return (
            obs.full_snapshot(self.d),
            obs.full_snapshot(self.env.dispatcher),
            obs.obs_snapshot(self.env.get_observation()),
            self.env.reward_function.last_reward,
        )

    def dispatch(self, j, p, m):
        self.d.dispatch(self.instance.jobs[j][p], m)
        self.last_step = self.env.step((j, m))


def inject(ctx, w, model, kind, x, y):
    """Builds and fires one invalid request; returns False if this kind is
    not applicable in the current state."""
    inst = w.inst
    n_m = model.n_machines
    mach = inst["machines"]
    ready = model.ready()
    call = None
    if kind == "scheduled":
        sch = model.scheduled()
        if not sch:
            return False
        j, p = sch[x % len(sch)]
        m = mach[j][p][y % len(mach[j][p])]
        desc = f"dispatch(already scheduled ({j},{p}), {m})"
        call = lambda: w.d.dispatch(w.instance.jobs[j][p], m)
    elif kind == "not_next":
        later = [(j, p) for (j, p) in model.unscheduled() if p > model.next[j]]
        if not later:
            return False
        j, p = later[x % len(later)]
        m = mach[j][p][y % len(mach[j][p])]
        desc = f"dispatch(not-yet-next ({j},{p}), {m})"
        call = lambda: w.d.dispatch(w.instance.jobs[j][p], m)
    elif kind == "ineligible":
        cands = [(j, p, m) for (j, p) in ready for m in range(n_m) if m not in mach[j][p]]
        if not cands:
            return False
        j, p, m = cands[x % len(cands)]
        desc = f"dispatch(ready ({j},{p}), ineligible machine {m})"
        call = lambda: w.d.dispatch(w.instance.jobs[j][p], m)
    elif kind == "out_of_range":
        if not ready:
            return False
        j, p = ready[x % len(ready)]
        # beyond the range on both sides, and the range -M..-1 that wraps
        # around under Python's negative indexing
        choices = [n_m, n_m + 3, -n_m - 1, -n_m - 7] + [-k for k in range(1, n_m + 1)]
        m = choices[y % len(choices)]
        desc = f"dispatch(ready ({j},{p}), out-of-range machine {m})"
        call = lambda: w.d.dispatch(w.instance.jobs[j][p], m)
    elif kind == "none_machine":
        multi = [(j, p) for (j, p) in ready if len(mach[j][p]) > 1]
        if not multi:
            return False
        j, p = multi[x % len(multi)]
        desc = f"dispatch(multi-machine ({j},{p}), None)"
        call = lambda: w.d.dispatch(w.instance.jobs[j][p])
    elif kind == "env_finished_job":
        done = [j for j in range(model.n_jobs) if model.next[j] == len(inst["durations"][j])]
        if not done:
            return False
        j = done[x % len(done)]
        m = [-1] + list(range(n_m))
        mm = m[y % len(m)]
        desc = f"env.step(({j},{mm})) for a finished job"
        call = lambda: w.env.step((j, mm))
    elif kind == "env_ineligible":
        # in-range ineligible ids, ids beyond the range on both sides, and
        # negative ids other than the -1 marker
        outside = [n_m, n_m + 3, -2, -3, -n_m - 1, -n_m - 7]
        cands = [
            (j, m)
            for (j, p) in ready
            for m in list(range(n_m)) + outside
            if m not in mach[j][p]
        ]
        if not cands:
            return False
        j, m = cands[x % len(cands)]
        desc = f"env.step(({j},{m})) ineligible machine"
        call = lambda: w.env.step((j, m))
    elif kind == "env_minus_one":
        multi = [j for (j, p) in ready if len(mach[j][p]) > 1]
        if not multi:
            return False
        j = multi[x % len(multi)]
        desc = f"env.step(({j},-1)) for a multi-machine operation"
        call = lambda: w.env.step((j, -1))
    before = w.snapshot()
    raised = None
    try:
        call()
    except Exception as e:  # pylint: disable=broad-except
        raised = e
    history = [(j_, p_, m_) for (j_, p_, m_, _s, _e) in model.order]
    ctx.check(
        raised is not None,
        "accepted:" + kind,
        f"{desc} did not raise (history {history})",
    )
    after = w.snapshot()
    if before != after:
        ctx.fail(
            "state-changed:" + kind,
            f"{desc} raised {type(raised).__name__} but changed the state "
            f"(history {history}): {obs.diff_snapshots(before, after)}",
        )
    ctx.count("rejected:" + kind)
    return True


def multi_env_part(case, ctx):
    """Invalid steps through MultiJobShopGraphEnv: its action space is sized
    for the largest instance, so ids that do not exist in the current
    (smaller) instance are representable and must still be rejected."""
    from job_shop_lib.generation import GeneralInstanceGenerator
    from job_shop_lib.reinforcement_learning import MultiJobShopGraphEnv

    seed = sum(len(r) for r in case["inst"]["durations"]) * 7 + len(case["events"])
    gen_ = GeneralInstanceGenerator(num_jobs=(1, 3), num_machines=(1, 3), duration_range=(1, 5), seed=seed)
    env = MultiJobShopGraphEnv(
        gen_,
        [obs.observer_config(cfg) for cfg in case["features"]],
        graph_initializer=obs.BUILDERS[case["builder"]],
    )
    # a twin environment (same generator seed) that never sees a rejected step
    twin = MultiJobShopGraphEnv(
        GeneralInstanceGenerator(num_jobs=(1, 3), num_machines=(1, 3), duration_range=(1, 5), seed=seed),
        [obs.observer_config(cfg) for cfg in case["features"]],
        graph_initializer=obs.BUILDERS[case["builder"]],
    )
    for _episode in range(3):
        ob_a, _info = env.reset()
        ob_b, _info = twin.reset()
        ctx.check(
            obs.obs_snapshot(ob_a) == obs.obs_snapshot(ob_b),
            "multi-env-diverged",
            f"episode {_episode}: reset() of the environment that saw rejected steps returns another observation than its twin's",
        )
        inner = env.single_job_shop_graph_env
        inst_now = inner.instance
        n_j, n_m = inst_now.num_jobs, len(inst_now.jobs[0])
        step_no = 0
        while not inner.dispatcher.schedule.is_complete():
            d = inner.dispatcher
            nxt = list(d.job_next_operation_index)
            bad = []
            for j in range(n_j):
                if nxt[j] >= len(inst_now.jobs[j]):
                    bad.append(((j, -1), "finished job"))
                else:
                    op = inst_now.jobs[j][nxt[j]]
                    for mm in range(3 + 1):
                        if mm not in op.machines:
                            bad.append(((j, mm), "machine not eligible / not in this instance"))
            for j in range(n_j, 3 + 1):
                bad.append(((j, -1), "job id not in this instance"))
            action, why = bad[(step_no * 5 + seed) % len(bad)]
            before = (obs.full_snapshot(d), obs.obs_snapshot(inner.get_observation()))
            raised = None
            try:
                env.step(action)
            except Exception as e:  # pylint: disable=broad-except
                raised = e
            inner2 = env.single_job_shop_graph_env
            ctx.check(
                raised is not None,
                "accepted:multi_env",
                f"MultiJobShopGraphEnv.step({action}) ({why}; instance {n_j}x{n_m}) did not raise",
            )
            after = (obs.full_snapshot(inner2.dispatcher), obs.obs_snapshot(inner2.get_observation()))
            if before != after or inner2 is not inner:
                ctx.fail(
                    "state-changed:multi_env",
                    f"MultiJobShopGraphEnv.step({action}) ({why}) raised but changed the state: {obs.diff_snapshots(before, after)}",
                )
            ctx.count("rejected:multi_env")
            op = d.available_operations()[0] if d.available_operations() else d.raw_ready_operations()[0]
            r_a = env.step((op.job_id, op.machines[0]))
            r_b = twin.step((op.job_id, op.machines[0]))
            ctx.check(
                (obs.obs_snapshot(r_a[0]), r_a[1], r_a[2], r_a[3]) == (obs.obs_snapshot(r_b[0]), r_b[1], r_b[2], r_b[3]),
                "multi-env-diverged",
                f"valid step ({op.job_id},{op.machines[0]}) after the rejected {action}: the environment returns "
                f"something else than its twin that never saw a rejected step (observation shapes "
                f"{ {k: getattr(v, 'shape', None) for k, v in r_a[0].items()} } vs { {k: getattr(v, 'shape', None) for k, v in r_b[0].items()} })",
            )
            step_no += 1


def failed_calls_prelude(ctx):
    """Earlier in the same process other public calls failed the documented
    way (job sequences that deadlock / name a job too often, a schedule with
    an operation on a machine it is not eligible for)."""
    from job_shop_lib import JobShopInstance, Operation, Schedule, ScheduledOperation

    other = JobShopInstance([[Operation(0, 2), Operation(1, 3)], [Operation(1, 1), Operation(0, 4)]], name="prelude")
    raised = 0
    for seqs in ([[1, 0], [0, 1]], [[0, 0, 1], [1, 0]]):
        try:
            Schedule.from_job_sequences(other, [list(s) for s in seqs])
        except Exception:  # pylint: disable=broad-except
            raised += 1
    try:
        ScheduledOperation(other.jobs[0][0], 0, 1)
    except Exception:  # pylint: disable=broad-except
        raised += 1
    ctx.count("prelude_calls_raised", raised)  # (a stimulus, not asserted here)
    ctx.label("failed_calls_prelude")


def check_case(case, ctx):
    inst, events = case["inst"], case["events"]
    if len(events) % 4 == 0:
        multi_env_part(case, ctx)
    if case.get("prelude"):
        failed_calls_prelude(ctx)
    w = World(case)
    twin = World(case)
    model = ref(inst)
    kinds_seen = set()
    strong = False  # a rejection after >=2 dispatches followed by a valid one
    pending_strong = False

    def valid_step(a, b):
        nonlocal strong, pending_strong
        ready = model.ready()
        j, p = ready[a % len(ready)]
        ms = inst["machines"][j][p]
        m = ms[b % len(ms)]
        w.dispatch(j, p, m)
        twin.dispatch(j, p, m)
        model.apply(j, m)
        s1, s2 = w.snapshot(), twin.snapshot()
        if s1 != s2:
            ctx.fail(
                "diverged-from-twin",
                f"after valid dispatch ({j},{p}) on {m} the run with rejected requests differs "
                f"from the run without: {obs.diff_snapshots(s1, s2)}",
            )
        r1, r2 = w.last_step, twin.last_step
        ctx.check(
            (obs.obs_snapshot(r1[0]), r1[1], r1[2], r1[3]) == (obs.obs_snapshot(r2[0]), r2[1], r2[2], r2[3]),
            "env-step-diverged",
            f"env.step(({j},{m})) returns differ between the runs with / without rejected requests",
        )
        if pending_strong:
            strong = True
        ctx.count("valid_dispatches")

    for ev in events:
        if ev[0] == "d":
            if not model.complete():
                valid_step(ev[1], ev[2])
        else:
            kind = KINDS[ev[1] % len(KINDS)]
            if inject(ctx, w, model, kind, ev[2], ev[3]):
                kinds_seen.add(kind)
                if model.count() >= 2:
                    pending_strong = True
    while not model.complete():
        valid_step(0, 0)
    for k, kind in enumerate(KINDS):
        if inject(ctx, w, model, kind, k, k + 1):
            kinds_seen.add(kind)
    s1, s2 = w.snapshot(), twin.snapshot()
    if s1 != s2:
        ctx.fail("diverged-from-twin", f"final states differ: {obs.diff_snapshots(s1, s2)}")
    ctx.label(*gen.inst_labels(inst))
    ctx.label("builder=" + case["builder"])
    ctx.nontrivial = len(kinds_seen) >= 2 and strong
