"""C19 - generated instances respect the requested shape and seed."""

from __future__ import annotations

import random

from hypothesis import strategies as st

from job_shop_lib.exceptions import ValidationError

from job_shop_lib.dispatching import Dispatcher
from job_shop_lib.dispatching.rules import random_operation_rule
from job_shop_lib.generation import GeneralInstanceGenerator

from .. import gen
from .. import fingerprint as fp

ID = "C19"
RULE = (
    "Generated: generator parameters - num_jobs and num_machines as int or "
    "(lo, hi) within 1..7, duration_range with 0 <= lo <= hi, "
    "machines_per_operation as int or range with max <= smallest machine "
    "count, allow_recirculation, allow_less_jobs_than_machines (when False "
    "the ranges satisfy jobs_lo >= machines_lo), name_suffix, seed (0 "
    "included), iteration_limit 0..12 - x a usage pattern (tight = fewer jobs than machines disallowed with a job range that dips below the machine range: unsatisfiable draws raise, produced instances are checked; copied = a deep copy / pickle round trip of the generator continues the sequence; helpers = public create_random_operation() calls with and without a pool between instances; sequential, two "
    "generators interleaved, other users of the global random module in "
    "between, generate() mixed with iteration on one of them, explicit generate(num_jobs=..), generate(num_jobs=.., "
    "num_machines=..) calls). Oracle per generated instance: job count in "
    "range, all jobs equally long with M in range, machine ids < M, durations "
    "in range, each operation has k distinct machines with k in range, a "
    "permutation of 0..M-1 per job without recirculation and k == 1, jobs >= "
    "machines when required, names pairwise distinct; over >= 300 operations "
    "with M > k the union of eligible machines is all of 0..M-1; two "
    "generators with the same parameters and seed give identical sequences "
    "under every usage pattern; list(gen) has iteration_limit elements, twice "
    "in a row. Non-trivial: a tuple range and a non-default flag are used."
)
BUDGET = {"quick": 1000, "thorough": 12000}
ASSUMPTIONS = [
    "'drawn from all M machines' is decided on >= 300 operations (probability of a false alarm under a uniform draw < 1e-12)",
]


@st.composite
def _params(draw):
    def rng(lo, hi):
        a = draw(st.integers(lo, hi))
        if draw(st.booleans()):
            return a
        b = draw(st.integers(a, hi))
        return [a, b]

    machines = rng(1, 6)
    m_lo = machines if isinstance(machines, int) else machines[0]
    allow_less = draw(st.booleans())
    if allow_less:
        jobs = rng(1, 7)
    else:
        jobs = rng(m_lo, 7)
    d_lo = draw(st.integers(0, 5))
    d_hi = draw(st.integers(d_lo, 12))
    k_hi = draw(st.integers(1, m_lo))
    k_lo = draw(st.integers(1, k_hi))
    mpo = k_hi if draw(st.booleans()) and k_lo == k_hi else [k_lo, k_hi]
    return {
        "num_jobs": jobs,
        "num_machines": machines,
        "duration_range": [d_lo, d_hi],
        "allow_less_jobs_than_machines": allow_less,
        "allow_recirculation": draw(st.booleans()),
        "machines_per_operation": mpo,
        "name_suffix": draw(st.sampled_from(["x", "classic_generated_instance", "a_b", "bench_v1.2", "set.A b", ""])),
        "seed": draw(st.one_of(st.just(0), st.integers(0, 5), st.integers(0, 10**6))),
        "iteration_limit": draw(st.integers(0, 12)),
    }


def fixed_cases(tier):
    """More than 30 machines (sizes the generated parameters never reach)."""
    return [
        {
            "params": {
                "num_jobs": [2, 4],
                "num_machines": [31, 34],
                "duration_range": [1, 9],
                "allow_less_jobs_than_machines": True,
                "allow_recirculation": recirc,
                "machines_per_operation": 1,
                "name_suffix": "wide",
                "seed": 3,
                "iteration_limit": 2,
            },
            "pattern": "sequential",
            "n": 4,
            "extra": [1, 2],
        }
        for recirc in (False, True)
    ] + [
        # generate(num_machines=m) alone with fewer jobs than machines
        # disallowed and a machine range reaching beyond the job range
        {
            "params": {
                "num_jobs": [2, 3],
                "num_machines": [2, 6],
                "duration_range": [1, 5],
                "allow_less_jobs_than_machines": False,
                "allow_recirculation": False,
                "machines_per_operation": 1,
                "name_suffix": "x",
                "seed": 3,
                "iteration_limit": 2,
            },
            "pattern": "explicit",
            "n": 8,
            "extra": [4, 9, 14, 19, 24, 29],
        }
    ]


def strategy(tier):
    return st.fixed_dictionaries(
        {
            "params": _params(),
            "pattern": gen.pick(["sequential", "interleaved", "global_rng", "explicit", "mixed", "helpers", "copied", "tight"]),
            "n": st.integers(1, 10),
            "extra": st.lists(st.integers(0, 1000), min_size=1, max_size=6),
        }
    )


def make(params):
    kw = dict(params)
    for key in ("num_jobs", "num_machines", "duration_range", "machines_per_operation"):
        if isinstance(kw[key], list):
            kw[key] = tuple(kw[key])
    return GeneralInstanceGenerator(**kw)


def span(v):
    return (v, v) if isinstance(v, int) else tuple(v)


def check_instance(ctx, params, inst, where, forced=(None, None)):
    j_lo, j_hi = span(params["num_jobs"])
    m_lo, m_hi = span(params["num_machines"])
    d_lo, d_hi = params["duration_range"]
    k_lo, k_hi = span(params["machines_per_operation"])
    n_j = len(inst.jobs)
    if forced[0] is not None:
        ctx.check(n_j == forced[0], "forced-jobs", f"{where}: {n_j} jobs, asked for {forced[0]}")
    ctx.check(j_lo <= n_j <= j_hi, "jobs-out-of-range", f"{where}: {n_j} jobs, range {(j_lo, j_hi)}")
    lens = {len(job) for job in inst.jobs}
    ctx.check(len(lens) == 1, "jobs-unequal-length", f"{where}: job lengths {sorted(lens)}")
    big_m = len(inst.jobs[0])
    if forced[1] is not None:
        ctx.check(big_m == forced[1], "forced-machines", f"{where}: M={big_m}, asked for {forced[1]}")
    ctx.check(m_lo <= big_m <= m_hi, "machines-out-of-range", f"{where}: M={big_m}, range {(m_lo, m_hi)}")
    if not params["allow_less_jobs_than_machines"]:
        ctx.check(n_j >= big_m, "fewer-jobs-than-machines", f"{where}: {n_j} jobs < {big_m} machines")
    for job in inst.jobs:
        seen = []
        for o in job:
            ctx.check(
                all(isinstance(x, int) and 0 <= x < big_m for x in o.machines),
                "machine-id-out-of-range",
                f"{where}: machines {o.machines} with M={big_m}",
            )
            ctx.check(
                len(set(o.machines)) == len(o.machines) and k_lo <= len(o.machines) <= k_hi,
                "machines-per-operation",
                f"{where}: operation machines {o.machines}, requested {(k_lo, k_hi)} distinct",
            )
            ctx.check(
                isinstance(o.duration, int) and d_lo <= o.duration <= d_hi,
                "duration-out-of-range",
                f"{where}: duration {o.duration}, range {(d_lo, d_hi)}",
            )
            seen.extend(o.machines)
        if not params["allow_recirculation"] and k_hi == 1:
            ctx.check(
                sorted(seen) == list(range(big_m)),
                "not-a-permutation",
                f"{where}: job visits machines {seen}, expected each of 0..{big_m - 1} once",
            )
    return big_m


def inst_fp(inst):
    return (fp.instance(inst)[0], inst.name)


def check_case(case, ctx):
    params, pattern, n = case["params"], case["pattern"], case["n"]
    j_lo, j_hi = span(params["num_jobs"])
    m_lo, m_hi = span(params["num_machines"])
    k_lo, k_hi = span(params["machines_per_operation"])
    g1, g2 = make(params), make(params)
    seq1, seq2 = [], []
    extra = case["extra"]
    if pattern == "sequential":
        seq1 = [g1.generate() for _ in range(n)]
        seq2 = [g2.generate() for _ in range(n)]
    elif pattern == "interleaved":
        for i in range(n):
            seq1.append(g1.generate())
            if extra[i % len(extra)] % 2:
                seq1.append(g1.generate())
                seq2.append(g2.generate())
            seq2.append(g2.generate())
        while len(seq2) < len(seq1):
            seq2.append(g2.generate())
    elif pattern == "global_rng":
        for i in range(n):
            seq1.append(g1.generate())
            e = extra[i % len(extra)]
            if e % 3 == 0:
                random.random()
            elif e % 3 == 1:
                random.seed(e)
            else:
                d = Dispatcher(seq1[-1])
                op = random_operation_rule(d)
                d.dispatch(op, random.choice(op.machines))
        for i in range(n):
            seq2.append(g2.generate())
            random.randint(0, 10)
    elif pattern == "tight":
        # fewer jobs than machines disallowed while the job range dips below
        # the machine range: a draw that cannot be satisfied raises (no
        # instance); whatever IS produced has to respect every clause
        tight = dict(params, allow_less_jobs_than_machines=False)
        tight["num_jobs"] = [max(1, m_lo - 1 - extra[0] % 2), max(j_hi, m_lo)]
        params = tight
        j_lo, j_hi = span(params["num_jobs"])
        g1, g2 = make(params), make(params)
        for g, seq in ((g1, seq1), (g2, seq2)):
            for _ in range(n + 3):
                try:
                    seq.append(g.generate())
                except ValueError:
                    ctx.count("tight_no_instance")
    elif pattern == "copied":
        # the generator is deep-copied / pickled after some instances; the
        # copy carries the seed's stream on exactly like the original
        import copy as _copy
        import pickle as _pickle

        a = extra[0] % 3
        seq1 = [g1.generate() for _ in range(a)]
        seq2 = [g2.generate() for _ in range(a)]
        gc = _copy.deepcopy(g1) if extra[-1] % 2 else _pickle.loads(_pickle.dumps(g1))
        seq1 += [g1.generate() for _ in range(n)]
        seq2 += [gc.generate() for _ in range(n)]
    elif pattern == "helpers":
        # the public create_random_operation() is called between instances
        # (with no pool: "all machines are available"; or with a pool of the
        # caller's), identically on both generators
        d_lo, d_hi = params["duration_range"]
        for i in range(n):
            for g, seq in ((g1, seq1), (g2, seq2)):
                e = extra[i % len(extra)]
                for r in range(e % 4):
                    if (e + r) % 3 == 0:
                        pool = list(range(m_hi))
                        o = g.create_random_operation(pool)
                    else:
                        o = g.create_random_operation()
                    ctx.check(
                        d_lo <= o.duration <= d_hi
                        and k_lo <= len(o.machines) <= k_hi
                        and len(set(o.machines)) == len(o.machines)
                        and all(0 <= x < m_hi for x in o.machines),
                        "random-operation",
                        f"create_random_operation gave machines {o.machines}, duration {o.duration}",
                    )
                    ctx.count("helper_calls")
                seq.append(g.generate())
    elif pattern == "mixed":
        # the same number of instances obtained through generate() and
        # through iteration, in different mixes
        lim = params["iteration_limit"]
        seq1.append(g1.generate())
        import itertools as _it

        seq1.extend(list(_it.islice(g1, lim + 3)))
        seq1.append(g1.generate())
        seq1.extend(list(_it.islice(g1, lim + 3)))
        for _ in range(2 * lim + 2):
            seq2.append(g2.generate())
    else:  # explicit sizes, identical calls on both generators
        for i in range(n):
            e = extra[i % len(extra)]
            jj = j_lo + e % (j_hi - j_lo + 1)
            if e % 2 == 0:
                args = {"num_jobs": jj}
                forced = (jj, None)
            else:
                hi = m_hi if params["allow_less_jobs_than_machines"] else min(m_hi, jj)
                mm = m_lo + (e // 2) % (hi - m_lo + 1)
                args = {"num_jobs": jj, "num_machines": mm}
                forced = (jj, mm)
            if e % 5 == 4:
                # only the number of machines is given: the number of jobs is
                # drawn; a draw that does not fit is refused, never returned
                hi = m_hi
                mm = m_lo + (e // 5) % (hi - m_lo + 1)
                args = {"num_machines": mm}
                forced = (None, mm)
            try:
                a = g1.generate(**args)
            except ValidationError:
                a = None
            try:
                b = g2.generate(**args)
            except ValidationError:
                b = None
            ctx.check((a is None) == (b is None), "same-seed-different-sequence", f"generate({args}) #{i}: refused by one of two identical generators only")
            if a is None or b is None:
                ctx.count("explicit_refused")
                continue
            check_instance(ctx, params, a, f"generate({args}) #{i}", forced)
            seq1.append(a)
            seq2.append(b)
    for i, inst in enumerate(seq1):
        check_instance(ctx, params, inst, f"instance #{i} ({pattern})")
    for i, inst in enumerate(seq2):
        check_instance(ctx, params, inst, f"second generator instance #{i} ({pattern})")
    for name, seq in (("first", seq1), ("second", seq2)):
        names = [i.name for i in seq]
        ctx.check(len(set(names)) == len(names), "name-reused", f"{name} generator reused a name: {names}")
    f1, f2 = [inst_fp(i) for i in seq1], [inst_fp(i) for i in seq2]
    ctx.check(
        f1 == f2,
        "same-seed-different-sequence",
        f"two generators with seed {params['seed']} and equal parameters diverge under pattern "
        f"'{pattern}' at index {next((i for i, (a, b) in enumerate(zip(f1, f2)) if a != b), None)}",
    )
    if pattern == "tight":
        ctx.label("pattern=tight")
        ctx.count("instances", len(seq1) + len(seq2))
        ctx.nontrivial = bool(seq1)
        return
    # iteration protocol
    g3 = make(params)
    lim = params["iteration_limit"]
    if case["n"] % 2 and lim >= 2:
        # a pass abandoned after its first element does not shorten the next
        for _inst in g3:
            break
    import itertools

    first = list(itertools.islice(g3, lim + 3))
    second = list(itertools.islice(g3, lim + 3))
    ctx.check(
        len(first) == lim and len(second) == lim and len(g3) == lim,
        "iteration-limit",
        f"iteration_limit {lim}: list(gen) gave {len(first)} then {len(second)} instances, len() {len(g3)}",
    )
    for i, inst in enumerate(first + second):
        check_instance(ctx, params, inst, f"iterated instance #{i}")
    names = [i.name for i in first + second]
    ctx.check(len(set(names)) == len(names), "name-reused", f"iteration reused a name: {names}")
    # coverage of all machines by multi-machine operations
    if k_hi > 1 or params["allow_recirculation"]:
        big_m = m_hi
        if big_m > k_hi or k_hi == 1:
            g4 = make(params)
            union = set()
            ops = 0
            jj = j_hi if params["allow_less_jobs_than_machines"] else max(j_hi, big_m)
            if jj <= j_hi:
                while ops < 300:
                    inst = g4.generate(num_jobs=jj, num_machines=big_m)
                    for job in inst.jobs:
                        for o in job:
                            union.update(o.machines)
                            ops += 1
                ctx.check(
                    union == set(range(big_m)),
                    "machines-not-from-all",
                    f"over {ops} operations with M={big_m} and {(k_lo, k_hi)} machines per operation only "
                    f"machines {sorted(union)} were ever eligible",
                )
                ctx.count("coverage_checks")
    ctx.label("pattern=" + pattern)
    ctx.label("multi_machine" if k_hi > 1 else "single_machine")
    ctx.label("seed0" if params["seed"] == 0 else "seed>0")
    tuple_range = any(isinstance(params[k], list) and params[k][0] != params[k][1] for k in ("num_jobs", "num_machines"))
    flag = (not params["allow_less_jobs_than_machines"]) or params["allow_recirculation"] or k_hi > 1
    ctx.count("instances", len(seq1) + len(seq2) + len(first) + len(second))
    ctx.nontrivial = tuple_range and flag
