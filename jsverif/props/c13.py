"""C13 - dense rewards add up to the sparse objective."""

from __future__ import annotations

from hypothesis import strategies as st

from job_shop_lib.dispatching import DispatcherObserverConfig
from job_shop_lib.dispatching.feature_observers import FeatureObserverType
from job_shop_lib.graphs import build_agent_task_graph, build_disjunctive_graph
from job_shop_lib.reinforcement_learning import (
    IdleTimeReward,
    MakespanReward,
    SingleJobShopGraphEnv,
)

from .. import feasible, gen
from .. import fingerprint as fp
from ..lib import Driver, build_instance, fork, ref

ID = "C13"
RULE = (
    "Generated: instance (all shapes incl. flexible, zero durations) x choice "
    "sequence x reset points (the same observers are used for up to three "
    "consecutive episodes, resets may happen mid-episode); MakespanReward and "
    "IdleTimeReward subscribed from the start (also created with subscribe=False and subscribed by hand, the second-subscribed one unsubscribed at a generated step; also on a dispatcher that is deep-copied mid-episode, copy and original then finished along different histories), and the same history through "
    "SingleJobShopGraphEnv with either reward class. Oracle after every step "
    "k of the current episode: len(rewards) == k, every reward <= 0, "
    "sum(makespan rewards) == -max end (independent checker), sum(idle "
    "rewards) == -(sum over machines of gaps before each operation, computed "
    "from the schedule lists), last_reward == rewards[-1], and env.step's "
    "reward == the reward the observer appended for that step. Non-trivial: "
    "a dispatch that does not extend the makespan and a dispatch that creates "
    "positive idle time both occur."
)
BUDGET = {"quick": 800, "thorough": 6000}
ASSUMPTIONS = [
    "idle time of a machine = sum of gaps between consecutive operations on it plus the start of its first operation (up to its last operation)",
]


def strategy(tier):
    big = tier == "thorough"
    inst = gen.instances(
        max_jobs=6 if big else 5,
        max_ops=5,
        max_machines=5,
        max_total=30 if big else 20,
        benchmarks=("ft06",),
        big_ok=2,
    )
    return st.fixed_dictionaries(
        {
            "inst": inst,
            "history": gen.histories(max_len=60),
            "resets": st.lists(st.integers(0, 40), max_size=2),
            "env_reward": st.sampled_from(["makespan", "idle"]),
            "env_graph": st.sampled_from(["disjunctive", "agent_task"]),
        }
    )


def idle_from_rows(rows):
    total = 0
    for lst in rows:
        prev = 0
        for _j, _p, s, e, _m in lst:
            total += s - prev
            prev = e
    return total


def check_case(case, ctx):
    inst, history = case["inst"], case["history"]
    resets = sorted(case["resets"])
    drv = Driver(inst, None)
    d = drv.dispatcher
    mk_r = MakespanReward(d)
    idle_r = IdleTimeReward(d)
    n = drv.model.n_ops
    saw_flat = saw_idle = False
    pos = 0  # index into history
    episode = 0
    k = 0  # steps in current episode

    def check(where):
        rows = fp.schedule_rows(d.schedule)
        for name, r, want in (
            ("MakespanReward", mk_r, -feasible.makespan(rows)),
            ("IdleTimeReward", idle_r, -idle_from_rows(rows)),
        ):
            ctx.check(
                len(r.rewards) == k,
                "one-reward-per-dispatch",
                f"{where}: {name} has {len(r.rewards)} rewards after {k} dispatches",
            )
            ctx.check(
                all(x <= 0 for x in r.rewards),
                "positive-reward",
                f"{where}: {name} rewards {r.rewards}",
            )
            ctx.check(
                sum(r.rewards) == want,
                "sum:" + name,
                f"{where}: sum({name}.rewards)={sum(r.rewards)} expected {want}; rewards {r.rewards}; rows {rows}",
            )
            ctx.check(
                r.last_reward == (r.rewards[-1] if r.rewards else 0),
                "last_reward",
                f"{where}: {name}.last_reward={r.last_reward}",
            )

    check("initial")
    while True:
        if resets and k >= min(resets[0], n) and episode < 2:
            resets.pop(0)
            d.reset()
            drv.model = ref(inst)
            episode += 1
            k = 0
            ctx.count("resets")
            check(f"after reset #{episode}")
            continue
        if drv.model.complete():
            break
        a, b = history[pos] if pos < len(history) else (0, 0)
        pos += 1
        before_mk = drv.model.makespan()
        j, p, m = drv.choose(a, b, "ready")
        mf = drv.model.machine_free(m)
        s, e = drv.dispatch(j, p, m)
        k += 1
        saw_flat |= e <= before_mk
        saw_idle |= s > mf
        check(f"episode {episode} step {k}: ({j},{p}) on {m}")
        ctx.count("steps")

    # reward observers attached in the middle of a history account for what
    # happens from then on
    drv2 = Driver(inst, None)
    d2 = drv2.dispatcher
    k_attach = (len(history) + n) % (n + 1)
    late_mk = late_idle = None
    base_mk = base_idle = 0
    for kk in range(n):
        if kk == k_attach:
            rows0 = fp.schedule_rows(d2.schedule)
            base_mk, base_idle = feasible.makespan(rows0), idle_from_rows(rows0)
            late_mk, late_idle = MakespanReward(d2), IdleTimeReward(d2)
        a, b = history[kk] if kk < len(history) else (0, 0)
        drv2.step(a, b, "ready")
        if late_mk is not None:
            rows2 = fp.schedule_rows(d2.schedule)
            for name, r, want in (
                ("MakespanReward", late_mk, -(feasible.makespan(rows2) - base_mk)),
                ("IdleTimeReward", late_idle, -(idle_from_rows(rows2) - base_idle)),
            ):
                ctx.check(
                    len(r.rewards) == kk + 1 - k_attach and sum(r.rewards) == want,
                    "late-attached:" + name,
                    f"{name} attached after {k_attach} dispatches: after dispatch {kk} rewards {r.rewards}, "
                    f"expected {kk + 1 - k_attach} rewards summing to {want}",
                )

    # a dispatcher deep-copied mid-episode (a planner branching the state):
    # the copy's own reward observers account for the copy's schedule, the
    # original's for the original's
    drv3 = Driver(inst, None)
    d3 = drv3.dispatcher
    MakespanReward(d3)
    IdleTimeReward(d3)
    k_fork = (2 * len(history) + n) % (n + 1)
    for kk in range(k_fork):
        a, b = history[kk] if kk < len(history) else (0, 0)
        drv3.step(a, b, "ready")
    clone, cmodel = fork(d3, drv3.model)
    branches = [("deep copy", clone, cmodel, -1), ("original after the deep copy", d3, drv3.model, 0)]
    for rounds in range(2):
        for name, disp, mod, pick_ in branches:
            while not mod.complete():
                j, p = mod.ready()[pick_]
                mm = inst["machines"][j][p][pick_]
                disp.dispatch(disp.instance.jobs[j][p], mm)
                mod.apply(j, mm)
                if mod.count() % 2 == 0 and rounds == 0:
                    break  # interleave the two branches
    for name, disp, mod, _pick in branches:
        rows3 = fp.schedule_rows(disp.schedule)
        ctx.check(
            sorted(r for lst in rows3 for r in lst) == sorted((j, p, s, e, mm) for (j, p, mm, s, e) in mod.order),
            "fork-schedule",
            f"{name} (taken after {k_fork} dispatches): schedule {rows3} differs from its own history {mod.order}",
        )
        for rname, cls, want in (
            ("MakespanReward", MakespanReward, -feasible.makespan(rows3)),
            ("IdleTimeReward", IdleTimeReward, -idle_from_rows(rows3)),
        ):
            mine = [o for o in disp.subscribers if type(o) is cls]
            ctx.check(len(mine) == 1, "fork-observers", f"{name}: {len(mine)} {rname} observers subscribed")
            r = mine[0]
            ctx.check(
                len(r.rewards) == n and sum(r.rewards) == want and all(x <= 0 for x in r.rewards),
                "fork-sum:" + rname,
                f"{name} (taken after {k_fork} of {n} dispatches): {rname} rewards {r.rewards}, expected {n} non-positive rewards summing to {want}",
            )
    ctx.count("forks")

    # subscription variants: rewards created with subscribe=False and
    # subscribed by hand before the first dispatch (makespan first, idle time
    # second); the second one is unsubscribed at a generated step
    drv4 = Driver(inst, None)
    d4 = drv4.dispatcher
    mk4 = MakespanReward(d4, subscribe=False)
    idle4 = IdleTimeReward(d4, subscribe=False)
    d4.subscribe(mk4)
    d4.subscribe(idle4)
    k_unsub = (3 * len(history) + n) % (n + 1)
    frozen = None
    for kk in range(n):
        if kk == k_unsub:
            # the reward is replaced: the old one unsubscribed, a new one of
            # the same class created (subscriber count unchanged)
            d4.unsubscribe(idle4)
            frozen = list(idle4.rewards)
            idle_base = idle_from_rows(fp.schedule_rows(d4.schedule))
            idle5 = IdleTimeReward(d4)
        a, b = history[kk] if kk < len(history) else (0, 0)
        drv4.step(a, b, "ready")
        rows4 = fp.schedule_rows(d4.schedule)
        if frozen is not None:
            ctx.check(
                len(idle5.rewards) == kk + 1 - k_unsub and sum(idle5.rewards) == -(idle_from_rows(rows4) - idle_base),
                "replacement-reward",
                f"IdleTimeReward created after its predecessor was unsubscribed at step {k_unsub}: after dispatch {kk} "
                f"rewards {idle5.rewards}, expected {kk + 1 - k_unsub} rewards summing to {-(idle_from_rows(rows4) - idle_base)}",
            )
        ctx.check(
            len(mk4.rewards) == kk + 1 and sum(mk4.rewards) == -feasible.makespan(rows4),
            "hand-subscribed:MakespanReward",
            f"MakespanReward(subscribe=False) subscribed by hand before the first dispatch (IdleTimeReward unsubscribed at step {k_unsub}): "
            f"after dispatch {kk} rewards {mk4.rewards}, expected {kk + 1} rewards summing to {-feasible.makespan(rows4)}",
        )
        if frozen is None:
            ctx.check(
                len(idle4.rewards) == kk + 1 and sum(idle4.rewards) == -idle_from_rows(rows4),
                "hand-subscribed:IdleTimeReward",
                f"IdleTimeReward(subscribe=False) subscribed by hand: after dispatch {kk} rewards {idle4.rewards}, expected sum {-idle_from_rows(rows4)}",
            )
        else:
            ctx.check(
                idle4.rewards == frozen,
                "unsubscribed-still-rewarded",
                f"IdleTimeReward unsubscribed at step {k_unsub} still received rewards: {idle4.rewards} (had {frozen})",
            )

    # the same through the environment (first complete episode's choices)
    instance = build_instance(inst)
    builder = build_disjunctive_graph if case["env_graph"] == "disjunctive" else build_agent_task_graph
    rcls = MakespanReward if case["env_reward"] == "makespan" else IdleTimeReward
    if len(history) % 4 == 0:
        # a user-defined reward: subclasses RewardObserver and appends to the
        # public `rewards` list, as the built-in ones do
        from job_shop_lib.reinforcement_learning import RewardObserver

        class NegativeDuration(RewardObserver):
            def update(self, scheduled_operation):
                self.rewards.append(-scheduled_operation.operation.duration)

        rcls = NegativeDuration
    env = SingleJobShopGraphEnv(
        builder(instance),
        [DispatcherObserverConfig(FeatureObserverType.IS_READY)],
        reward_function_config=DispatcherObserverConfig(rcls),
        ready_operations_filter=None,
    )
    for ep in range(2):
        env.reset()
        model = ref(inst)
        ctx.check(env.reward_function.rewards == [], "env-reset-rewards", f"episode {ep}: rewards not empty after env.reset()")
        total = 0
        kk = 0
        while not model.complete():
            a, b = history[kk] if kk < len(history) else (0, 0)
            ready = model.ready()
            j, p = ready[a % len(ready)]
            ms = inst["machines"][j][p]
            m = ms[b % len(ms)]
            _obs, reward, _done, _trunc, _info = env.step((j, m))
            model.apply(j, m)
            kk += 1
            ctx.check(
                len(env.reward_function.rewards) == kk and reward == env.reward_function.rewards[-1],
                "env-step-reward",
                f"env episode {ep} step {kk}: step returned {reward}, observer rewards {env.reward_function.rewards}",
            )
            total += reward
            rows = fp.schedule_rows(env.dispatcher.schedule)
            if rcls is MakespanReward:
                want = -feasible.makespan(rows)
            elif rcls is IdleTimeReward:
                want = -idle_from_rows(rows)
            else:
                want = -sum(e - s for lst in rows for (_j, _p, s, e, _m) in lst)
            ctx.check(
                total == want and reward <= 0,
                "env-sum",
                f"env episode {ep} step {kk}: running sum of step rewards {total}, expected {want}",
            )
    if len(history) % 5 == 0:
        from job_shop_lib.generation import GeneralInstanceGenerator
        from job_shop_lib.reinforcement_learning import MultiJobShopGraphEnv

        menv = MultiJobShopGraphEnv(
            GeneralInstanceGenerator(num_jobs=(1, 3), num_machines=(1, 3), duration_range=(1, 5), seed=len(history)),
            [DispatcherObserverConfig(FeatureObserverType.IS_READY)],
            reward_function_config=DispatcherObserverConfig(rcls if rcls in (MakespanReward, IdleTimeReward) else MakespanReward),
        )
        for ep in range(3):
            menv.reset()
            if ep == 1:
                # the reward function is replaced through the public setter
                other_cls = MakespanReward if isinstance(menv.reward_function, IdleTimeReward) else IdleTimeReward
                menv.reward_function = other_cls(menv.dispatcher)
            total = 0
            kk = 0
            while not menv.dispatcher.schedule.is_complete():
                op = menv.dispatcher.raw_ready_operations()[kk % len(menv.dispatcher.raw_ready_operations())]
                _o, reward, _d, _t, _i = menv.step((op.job_id, op.machines[0]))
                kk += 1
                rf = menv.reward_function
                ctx.check(
                    rf.dispatcher is menv.dispatcher and len(rf.rewards) == kk and reward == rf.rewards[-1],
                    "multi-env-step-reward",
                    f"multi env episode {ep} step {kk}: step returned {reward}; env.reward_function holds "
                    f"{len(rf.rewards)} rewards and observes {'this' if rf.dispatcher is menv.dispatcher else 'another'} episode's dispatcher",
                )
                total += reward
            rowsm = fp.schedule_rows(menv.dispatcher.schedule)
            want = -feasible.makespan(rowsm) if isinstance(menv.reward_function, MakespanReward) else -idle_from_rows(rowsm)
            ctx.check(total == want, "multi-env-sum", f"multi env episode {ep}: step rewards sum to {total}, expected {want} for {type(menv.reward_function).__name__}")
    ctx.label(*gen.inst_labels(inst))
    ctx.label(f"episodes={episode + 1}")
    ctx.nontrivial = saw_flat and saw_idle
