"""C02 - forced start times, bookkeeping matches the schedule, histories replay."""

from __future__ import annotations

from hypothesis import strategies as st

from job_shop_lib.dispatching import Dispatcher, HistoryObserver

from .. import gen, obs
from .. import fingerprint as fp
from ..lib import Driver, build_instance, disturb, fork, ref

ID = "C02"
RULE = (
    "Generated: instance (all shapes of DESIGN 2.3, flexible, zero durations) x "
    "choice sequence x stop point (partial or complete history), optionally with a copy.deepcopy of the dispatcher taken at a generated step and played on separately (both then compared with their own models). Oracle: "
    "lock-step independent simulator - start of every dispatch == max(job "
    "predecessor end, last end on chosen machine); machine/job next-available "
    "times, next-operation indices, scheduled count and makespan compared both "
    "with values derived from the real schedule lists and with the model; then "
    "the recorded history is replayed on a fresh dispatcher, on the same "
    "dispatcher after reset(), and from HistoryObserver.history the way the "
    "GIF code does, and must reproduce the schedule fingerprint step by step. "
    "Mode 'exhaustive': all histories of a <=7-operation instance. Non-trivial: "
    ">=4 dispatches with the job side of max() decisive at least once and the "
    "machine side decisive at least once; exhaustive: >=2 jobs, >=3 ops."
)
RULE += (
    " Thorough tier additionally, split among the workers: small-scope exhaustive "
    "enumeration - all 29331 instances with job lengths (1) (2) (3) (1,1) (1,2) "
    "(2,1) (2,2) (1,1,1) (1,1,2) (1,2,1) (2,1,1), machine sets {[0],[1],[0,1]}, "
    "durations {0,1,3} - with every dispatch history of each (jsverif/smallscope.py)."
)
BUDGET = {"quick": 1000, "thorough": 12000}
ASSUMPTIONS = [
    "jsverif/model.py RefState is the specification of start times",
]


def strategy(tier):
    big = tier == "thorough"
    inst = gen.instances(
        max_jobs=6 if big else 5,
        max_ops=6 if big else 5,
        max_machines=6 if big else 5,
        max_total=36 if big else 25,
        benchmarks=("ft06", "la01") if big else ("ft06",),
        big_ok=2,
    )
    seq = st.fixed_dictionaries(
        {
            "mode": st.just("sequence"),
            "inst": inst,
            "history": gen.histories(),
            "stop": st.one_of(st.none(), st.none(), st.integers(0, 36)),
            "fork": gen.pick([None, 1, None, 0, None, 3, None, 5]),
            "observers": gen.weighted((2, st.just([])), (1, obs.feature_configs(min_size=1, max_size=3))),
            # start times never depend on the installed filter (any callable)
            "filters": gen.filter_configs(max_len=2, custom=True),
        }
    )
    small = gen.instances(
        max_jobs=3, max_ops=4, max_machines=3, max_total=7 if big else 6
    )
    exh = st.fixed_dictionaries({"mode": st.just("exhaustive"), "inst": small})
    return gen.weighted((8, seq), (1, exh))


def derive(inst, rows):
    """Tracking values implied by the schedule lists alone."""
    n_jobs = len(inst["durations"])
    machine_free = [lst[-1][3] if lst else 0 for lst in rows]
    idx = [0] * n_jobs
    job_free = [0] * n_jobs
    last_pos = [-1] * n_jobs
    for lst in rows:
        for j, p, _s, e, _m in lst:
            idx[j] += 1
            if p > last_pos[j]:
                last_pos[j] = p
                job_free[j] = e
    count = sum(len(lst) for lst in rows)
    mk = max((e for lst in rows for (_j, _p, _s, e, _m) in lst), default=0)
    return machine_free, job_free, idx, count, mk


def check_tracking(ctx, inst, d, model, where):
    rows = fp.schedule_rows(d.schedule)
    mf, jf, idx, count, mk = derive(inst, rows)
    got = (
        list(d.machine_next_available_time),
        list(d.job_next_available_time),
        list(d.job_next_operation_index),
        d.schedule.num_scheduled_operations,
        d.schedule.makespan(),
    )
    ctx.check(
        got == (mf, jf, idx, count, mk),
        "tracking-vs-schedule",
        f"{where}: tracking {got} != derived from schedule {(mf, jf, idx, count, mk)}",
    )
    want = (
        [model.machine_free(m) for m in range(model.n_machines)],
        [model.job_free(j) for j in range(model.n_jobs)],
        list(model.next),
        model.count(),
        model.makespan(),
    )
    ctx.check(
        got == want,
        "tracking-vs-model",
        f"{where}: tracking {got} != model {want}",
    )


def check_last(ctx, d, j, p, m, s, where):
    lst = d.schedule.schedule[m]
    ctx.check(bool(lst), "placed", f"{where}: machine list {m} is empty")
    so = lst[-1]
    ctx.check(
        fp.jp(so.operation) == (j, p) and so.machine_id == m,
        "placed",
        f"{where}: last entry of machine {m} is {fp.sop(so)}",
    )
    ctx.check(
        so.start_time == s,
        "start-time",
        f"{where}: start {so.start_time} != max(job free, machine free) = {s}",
    )
    ctx.check(
        so.end_time == s + so.operation.duration,
        "end-time",
        f"{where}: end {so.end_time}",
    )


def _sequence(case, ctx):
    inst, history, stop = case["inst"], case["history"], case["stop"]
    filters = case.get("filters")
    if filters and any(x == 0 for r in inst["durations"] for x in r):
        filters = [f for f in filters if f != "dominated_operations"] or None
    drv = Driver(inst, filters)
    d = drv.dispatcher
    hist = HistoryObserver(d)
    # bookkeeping must match whatever observers are attached
    if not any(x > 2**24 for r in inst["durations"] for x in r):
        for cfg in case.get("observers", []):
            obs.make_feature_observer(d, cfg)
    model = drv.model
    n = model.n_ops
    steps = n if stop is None else min(stop, n)
    check_tracking(ctx, inst, d, model, "initial")
    recorded = []
    snaps = []
    job_decisive = machine_decisive = False
    forked = None
    for k in range(steps):
        if case.get("fork") == k:
            # a planner deep-copies the dispatcher here and looks ahead on the
            # copy; both keep matching their own histories
            clone, cmodel = fork(d, model)
            disturb(clone, cmodel, inst, 2)
            check_tracking(ctx, inst, clone, cmodel, f"deep copy taken before step {k}, played 2 steps on")
            forked = (clone, cmodel, k)
            ctx.label("forked")
        a, b = history[k] if k < len(history) else (0, 0)
        j, p, m = drv.choose(a, b, "ready")
        jf, mf = model.job_free(j), model.machine_free(m)
        job_decisive |= jf > mf
        machine_decisive |= mf > jf
        if a % 2 == 0:
            # read-only queries between dispatches, in generated order
            qs = [(jj, pp, mm) for (jj, pp) in model.ready() for mm in inst["machines"][jj][pp]]
            if b % 2:
                qs.reverse()
            for jj, pp, mm in qs:
                got = d.start_time(drv.op(jj, pp), mm)
                ctx.check(
                    got == model.start(jj, mm),
                    "start_time-query",
                    f"step {k}: Dispatcher.start_time(({jj},{pp}),{mm}) = {got} != {model.start(jj, mm)}",
                )
            if b % 3 == 0:
                # a look-ahead also asks for operations that are not ready yet
                # (the answers are not specified, the later ones are)
                for o in d.unscheduled_operations():
                    for mm in o.machines:
                        d.start_time(o, mm)
            want_now = model.min_start(model.available(filters))
            ctx.check(
                d.current_time() == want_now,
                "current_time-query",
                f"step {k}: current_time() {d.current_time()} != {want_now} (filters {filters})",
            )
        st_real = d.start_time(drv.op(j, p), m)
        ctx.check(
            st_real == max(jf, mf),
            "start_time-query",
            f"step {k}: Dispatcher.start_time(({j},{p}),{m}) = {st_real} != {max(jf, mf)}",
        )
        s, _e = drv.dispatch(j, p, m)
        where = f"step {k}: ({j},{p}) on {m}"
        check_last(ctx, d, j, p, m, s, where)
        check_tracking(ctx, inst, d, model, where)
        recorded.append((j, p, m))
        snaps.append(fp.schedule(d.schedule))
        ctx.count("steps")
    ctx.check(
        [fp.sop(x) for x in hist.history]
        == [(fp.op(drv.op(j, p)), model.where[(j, p)][1], m) for (j, p, m) in recorded],
        "history-observer",
        "HistoryObserver.history differs from the dispatch sequence",
    )
    if forked is not None:
        clone, cmodel, k0 = forked
        check_tracking(ctx, inst, clone, cmodel, f"deep copy taken before step {k0}, after the original went on")
        disturb(clone, cmodel, inst, 2)
        check_tracking(ctx, inst, clone, cmodel, f"deep copy taken before step {k0}, played on after the original finished")
        check_tracking(ctx, inst, d, model, "original after its deep copy was played on")
    hist_copy = list(hist.history)
    # (a) replay on a fresh dispatcher over an independently rebuilt instance
    inst2 = build_instance(inst)
    d2 = Dispatcher(inst2)
    for k, (j, p, m) in enumerate(recorded):
        d2.dispatch(inst2.jobs[j][p], m)
        ctx.check(
            fp.schedule(d2.schedule) == snaps[k],
            "replay-fresh",
            f"replay on a fresh dispatcher differs at step {k}",
        )
    # (c) replay from the history observer's record, as the GIF code does
    d3 = Dispatcher(drv.instance)
    for k, so in enumerate(list(hist.history)):
        d3.dispatch(so.operation, so.machine_id)
        ctx.check(
            fp.schedule(d3.schedule) == snaps[k],
            "replay-history-observer",
            f"replay of HistoryObserver.history differs at step {k}",
        )
    # (b) replay on the same dispatcher after reset; the recorded history is
    # the list object the observer handed out before the reset
    kept = hist.history
    d.reset()
    ctx.check(
        [fp.sop(x) for x in kept] == [fp.sop(x) for x in list(hist_copy)],
        "recorded-history-lost-on-reset",
        f"the history recorded before reset() changed when the dispatcher was reset: {len(kept)} of {len(hist_copy)} entries left",
    )
    check_tracking(ctx, inst, d, ref(inst), "after reset")
    ctx.check(hist.history == [], "reset-history", "history not cleared by reset")
    m2 = ref(inst)
    for k, (j, p, m) in enumerate(recorded):
        d.dispatch(drv.op(j, p), m)
        m2.apply(j, m)
        ctx.check(
            fp.schedule(d.schedule) == snaps[k],
            "replay-reset",
            f"replay after reset differs at step {k}",
        )
        check_tracking(ctx, inst, d, m2, f"replay after reset step {k}")
    # a third, different episode on the same dispatcher: what was recorded in
    # the second one (the list AND its entries) stays what it was
    kept2 = hist.history
    kept2_fp = [fp.sop(x) for x in kept2]
    entries = list(kept2)
    d.reset()
    m3 = ref(inst)
    while not m3.complete():
        j, p = m3.ready()[-1]
        mm = inst["machines"][j][p][-1]
        d.dispatch(drv.op(j, p), mm)
        m3.apply(j, mm)
    check_tracking(ctx, inst, d, m3, "third episode (last ready operation first)")
    ctx.check(
        [fp.sop(x) for x in entries] == kept2_fp and [fp.sop(x) for x in kept2] == kept2_fp,
        "recorded-history-lost-on-reset",
        f"the history recorded in an earlier episode was rewritten by a later one: {[fp.sop(x) for x in entries]} was {kept2_fp}",
    )
    ctx.label(*gen.inst_labels(inst))
    ctx.label("partial" if steps < n else "complete")
    ctx.nontrivial = steps >= 4 and job_decisive and machine_decisive


def _exhaustive(case, ctx):
    inst = case["inst"]
    n = ref(inst).n_ops
    instance = build_instance(inst)
    nodes = [0]
    limit = 4000

    def rec(prefix):
        if nodes[0] > limit:
            return
        model = ref(inst)
        for j, m in prefix:
            model.apply(j, m)
        for j, p in model.ready():
            for m in inst["machines"][j][p]:
                new = prefix + [(j, m)]
                d = Dispatcher(instance)
                mod = ref(inst)
                s = 0
                for jj, mm in new:
                    d.dispatch(instance.jobs[jj][mod.next[jj]], mm)
                    s, _ = mod.apply(jj, mm)
                nodes[0] += 1
                where = f"history {new}"
                check_last(ctx, d, j, p, m, s, where)
                check_tracking(ctx, inst, d, mod, where)
                if len(new) < n:
                    rec(new)

    rec([])
    ctx.count("exhaustive_instances")
    ctx.count("exhaustive_nodes", nodes[0])
    if nodes[0] > limit:
        ctx.count("exhaustive_truncated")
    ctx.label("mode=exhaustive", *gen.inst_labels(inst))
    ctx.nontrivial = n >= 3 and len(inst["durations"]) >= 2


def worker_cases(tier, index, n):
    if tier != "thorough":
        return
    from .. import smallscope

    for inst in smallscope.shard(index, n):
        yield {"mode": "small_scope", "inst": inst}


def _small_scope(case, ctx):
    from .. import smallscope

    inst = case["inst"]
    instance = build_instance(inst)
    for prefix in smallscope.all_prefixes(inst):
        d = Dispatcher(instance)
        mod = ref(inst)
        s = 0
        for jj, mm in prefix:
            d.dispatch(instance.jobs[jj][mod.next[jj]], mm)
            s, _ = mod.apply(jj, mm)
        j, m = prefix[-1]
        p = mod.next[j] - 1
        where = f"history {prefix}"
        check_last(ctx, d, j, p, m, s, where)
        check_tracking(ctx, inst, d, mod, where)
        ctx.count("small_scope_nodes")
    ctx.count("small_scope_instances")
    ctx.label("mode=small_scope")
    ctx.nontrivial = ref(inst).n_ops >= 3 and len(inst["durations"]) >= 2


def check_case(case, ctx):
    if case["mode"] == "small_scope":
        _small_scope(case, ctx)
    elif case["mode"] == "exhaustive":
        _exhaustive(case, ctx)
    else:
        _sequence(case, ctx)
