"""C01 - every dispatch history yields a feasible schedule."""

from __future__ import annotations

from hypothesis import strategies as st

from job_shop_lib.dispatching import Dispatcher

from .. import feasible, gen
from .. import fingerprint as fp
from ..lib import Driver, build_filter, build_instance, ref

ID = "C01"
RULE = (
    "Generated: instance (1-5 jobs x 1-5 ops, <=25 ops quick / <=36 thorough; "
    "flexible, recirculation, irregular, zero durations, unused machine ids; "
    "classic and benchmark families at low weight) x filter configuration "
    "(none / built-in / composition of 1-3) x choice sequence (each step picks "
    "among filtered available operations or among all raw ready operations, and "
    "an eligible machine, optionally omitting the machine id for single-machine "
    "operations, optionally after read-only queries in that state, optionally after a request for a not-ready operation that has to be refused), optionally preceded by an abandoned partial episode and a "
    "reset() on the same dispatcher; optionally a copy.deepcopy of the dispatcher "
    "is taken mid-run and played to the end separately. Oracle: independent feasibility checker on "
    "dispatcher.schedule.schedule after every dispatch + is_complete exactly "
    "after num_operations dispatches. Mode 'exhaustive': every dispatch history "
    "(all interleavings x machine choices) of a generated instance with <=7 "
    "operations. Non-trivial: >=3 dispatches, >=2 jobs, job sequence not sorted "
    "(two jobs interleaved); exhaustive: >=2 jobs and >=3 operations. Distinct "
    "by SHA-1 of the canonical case JSON."
)
RULE += (
    " Thorough tier additionally, split among the workers: small-scope exhaustive "
    "enumeration - all 29331 instances with job lengths (1) (2) (3) (1,1) (1,2) "
    "(2,1) (2,2) (1,1,1) (1,1,2) (1,2,1) (2,1,1), machine sets {[0],[1],[0,1]}, "
    "durations {0,1,3} - with every dispatch history of each (jsverif/smallscope.py)."
)
BUDGET = {"quick": 1200, "thorough": 12000}
ASSUMPTIONS = [
    "the feasibility checker in jsverif/feasible.py is the definition of feasible",
    "instances are within the generated shapes (DESIGN.md 2.3)",
]


def strategy(tier):
    big = tier == "thorough"
    inst = gen.instances(
        max_jobs=6 if big else 5,
        max_ops=6 if big else 5,
        max_machines=6 if big else 5,
        max_total=36 if big else 25,
        benchmarks=("ft06", "la01") if big else ("ft06",),
        big_ok=2,
    )
    step = st.tuples(st.integers(0, 7), st.integers(0, 5), st.integers(0, 15)).map(list)
    seq = st.fixed_dictionaries(
        {
            "mode": st.just("sequence"),
            "inst": inst,
            "filters": gen.filter_configs(custom=True),
            "history": gen.sized_lists(step, 40),
            "pre": st.one_of(st.just(0), st.just(0), st.integers(1, 12)),
        }
    )
    small = gen.instances(
        max_jobs=3, max_ops=4, max_machines=3, max_total=7 if big else 6
    )
    exh = st.fixed_dictionaries({"mode": st.just("exhaustive"), "inst": small})
    return gen.weighted((8, seq), (1, exh))


def fixed_cases(tier):
    """More than 256 operations (26 jobs x 10 machines): sizes no generated
    case reaches; completion exactly after the 260th dispatch."""
    return [
        {
            "mode": "sequence",
            "inst": gen.big_classic(26, 10),
            "filters": None,
            "history": [[(5 * k + 1) % 8, 0, 2 if k % 7 == 0 else 0] for k in range(260)],
            "pre": 0,
        }
    ]


def _check_state(ctx, inst, dispatcher, expected_count, n_ops, where):
    rows = fp.schedule_rows(dispatcher.schedule)
    probs = feasible.problems(inst["durations"], inst["machines"], rows)
    ctx.check(not probs, "infeasible", f"{where}: {probs[:4]}", rows=rows)
    total = sum(len(r) for r in rows)
    ctx.check(
        total == expected_count,
        "count",
        f"{where}: schedule holds {total} operations after {expected_count} dispatches",
    )
    complete = dispatcher.schedule.is_complete()
    ctx.check(
        complete == (expected_count == n_ops),
        "is_complete",
        f"{where}: is_complete()={complete} after {expected_count}/{n_ops} dispatches",
    )
    ctx.check(
        feasible.is_complete(inst["durations"], rows) == (expected_count == n_ops),
        "complete-checker",
        f"{where}: checker completeness disagrees after {expected_count}/{n_ops}",
    )


def _sequence(case, ctx):
    inst, filters, history = case["inst"], case["filters"], case["history"]
    drv = Driver(inst, filters)
    n = drv.model.n_ops
    pre = min(case.get("pre", 0), n)
    if pre:
        # an earlier, abandoned episode on the same dispatcher
        for k in range(pre):
            drv.step(k, k, "ready")
        drv.dispatcher.reset()
        drv.model = ref(inst)
        ctx.label("after_reset")
    _check_state(ctx, inst, drv.dispatcher, 0, n, "initial")
    jobs_seq = []
    clone_at = (len(history) * 7 + pre) % (n + 3) if len(history) % 3 == 0 else None
    clone = None
    for k in range(n):
        if clone_at == k:
            # a look-ahead copy of the dispatcher taken here and played to
            # the end AFTER the original has finished (see below)
            import copy

            clone = (copy.deepcopy(drv.dispatcher), copy.deepcopy(drv.model), k)
        a, b, r = history[k] if k < len(history) else (0, 0, 0)
        if r & 4:
            # a monitoring client reads the state between dispatches
            drv.dispatcher.current_time()
            drv.dispatcher.available_operations()
            for o in drv.dispatcher.raw_ready_operations():
                for mm in o.machines:
                    drv.dispatcher.start_time(o, mm)
            if r & 1:
                # a look-ahead also asks for operations that are not ready yet
                for o in drv.dispatcher.unscheduled_operations():
                    for mm in o.machines:
                        drv.dispatcher.start_time(o, mm)
        if r & 8:
            # a request the dispatcher has to refuse (an operation that is not
            # the next one of its job), sent the way ready ones are sent;
            # refused requests are not part of the history of accepted ones
            unready = [
                (jj, pp)
                for jj, row in enumerate(inst["durations"])
                for pp in range(len(row))
                if pp != drv.model.next[jj]
            ]
            if unready:
                jj, pp = unready[(a + 3 * b) % len(unready)]
                o = drv.op(jj, pp)
                try:
                    if len(o.machines) == 1 and r & 2:
                        drv.dispatcher.dispatch(o)
                    else:
                        drv.dispatcher.dispatch(o, o.machines[b % len(o.machines)])
                    accepted = True
                except Exception:  # pylint: disable=broad-except
                    accepted = False
                ctx.check(
                    not accepted,
                    "accepted-unready",
                    f"dispatch of ({jj},{pp}) was accepted although job {jj}'s next operation is {drv.model.next[jj]}"
                    f" (default machine: {bool(len(o.machines) == 1 and r & 2)})",
                )
                ctx.count("refused_requests")
        pool = "available" if (filters and not r & 1) else "ready"
        if pool == "available" and not drv.dispatcher.available_operations():
            pool = "ready"  # an empty filter result is C07's business
            ctx.count("empty_filter_result")
        j, p, m = drv.choose(a, b, pool)
        single = len(inst["machines"][j][p]) == 1
        drv.dispatch(j, p, m, explicit_machine=not (single and r & 2))
        jobs_seq.append(j)
        _check_state(ctx, inst, drv.dispatcher, k + 1, n, f"after dispatch {k} of ({j},{p}) on {m}")
        ctx.count("steps")
    if clone is not None:
        cd, cm, k0 = clone
        rows = fp.schedule_rows(cd.schedule)
        ctx.check(
            sum(len(r) for r in rows) == k0 and cm.count() == k0,
            "copy-shares-state",
            f"a deepcopy of the dispatcher taken after {k0} dispatches holds {sum(len(r) for r in rows)} operations after the original went on",
        )
        ci = cd.instance
        for k in range(k0, n):
            ready = cm.ready()
            j, p = ready[-1]
            mm = inst["machines"][j][p][-1]
            cd.dispatch(ci.jobs[j][p], mm)
            cm.apply(j, mm)
            _check_state(ctx, inst, cd, k + 1, n, f"deep copy taken at {k0}, after its dispatch {k} of ({j},{p}) on {mm}")
        _check_state(ctx, inst, drv.dispatcher, n, n, "original after its deep copy was played to the end")
        ctx.label("deepcopy")
    ctx.label(*gen.inst_labels(inst))
    ctx.label("filter=" + ("none" if not filters else "+".join(filters)) if not filters or len(filters) == 1 else "filter=composite")
    ctx.nontrivial = (
        n >= 3 and len(inst["durations"]) >= 2 and jobs_seq != sorted(jobs_seq)
    )


def _exhaustive(case, ctx):
    inst = case["inst"]
    model0 = ref(inst)
    n = model0.n_ops
    instance = build_instance(inst)
    leaves = [0]
    nodes = [0]
    limit = 4000

    def rec(prefix):
        if nodes[0] > limit:
            return
        model = ref(inst)
        for j, m in prefix:
            model.apply(j, m)
        for j, p in model.ready():
            for m in inst["machines"][j][p]:
                new = prefix + [(j, m)]
                d = Dispatcher(instance)
                for jj, mm in new:
                    d.dispatch(instance.jobs[jj][d.job_next_operation_index[jj]], mm)
                nodes[0] += 1
                _check_state(ctx, inst, d, len(new), n, f"history {new}")
                if len(new) == n:
                    leaves[0] += 1
                else:
                    rec(new)

    rec([])
    ctx.count("exhaustive_instances")
    ctx.count("exhaustive_nodes", nodes[0])
    ctx.count("exhaustive_leaves", leaves[0])
    if nodes[0] > limit:
        ctx.count("exhaustive_truncated")
    ctx.label("mode=exhaustive", *gen.inst_labels(inst))
    ctx.nontrivial = n >= 3 and len(inst["durations"]) >= 2


def worker_cases(tier, index, n):
    if tier != "thorough":
        return
    from .. import smallscope

    for inst in smallscope.shard(index, n):
        yield {"mode": "small_scope", "inst": inst}


def _small_scope(case, ctx):
    from .. import smallscope

    inst = case["inst"]
    instance = build_instance(inst)
    n = ref(inst).n_ops
    for prefix in smallscope.all_prefixes(inst):
        d = Dispatcher(instance)
        smallscope.replay(inst, instance, prefix, d)
        _check_state(ctx, inst, d, len(prefix), n, f"history {prefix}")
        ctx.count("small_scope_nodes")
    ctx.count("small_scope_instances")
    ctx.label("mode=small_scope")
    ctx.nontrivial = n >= 3 and len(inst["durations"]) >= 2


def check_case(case, ctx):
    if case["mode"] == "small_scope":
        _small_scope(case, ctx)
    elif case["mode"] == "exhaustive":
        _exhaustive(case, ctx)
    else:
        _sequence(case, ctx)
