"""C04 - dispatching-rule solvers always finish and follow their rule."""

from __future__ import annotations

import random

from hypothesis import strategies as st

from job_shop_lib.dispatching import Dispatcher, ReadyOperationsFilterType
from job_shop_lib.dispatching.rules import (
    DispatchingRuleSolver,
    DispatchingRuleType,
    MachineChooserType,
    MostWorkRemainingScorer,
    first_come_first_served_rule,
    first_come_first_served_score,
    most_operations_remaining_rule,
    most_operations_remaining_score,
    most_work_remaining_rule,
    observer_based_most_work_remaining_rule,
    random_operation_rule,
    score_based_rule,
    score_based_rule_with_tie_breaker,
    shortest_processing_time_rule,
    shortest_processing_time_score,
)

from .. import feasible, gen
from .. import fingerprint as fp
from ..lib import build_instance, ref
from .c07 import FUNCS as FILTER_FUNCS

ID = "C04"
RULE = (
    "Generated: instance (all shapes, flexible, zero durations; one in six with 10**6 added to every positive duration, so that scores differ by a relative 1e-6 while every job total stays exact in float32) x rule (5 "
    "DispatchingRuleType values as string/enum/function, observer-based MWKR, "
    "score_based_rule(f), score_based_rule_with_tie_breaker([f1..f3]) over the "
    "deterministic built-in scoring functions and MostWorkRemainingScorer) x "
    "machine chooser (first/random as string/enum) x filter (solver default, "
    "None, one built-in as string/enum/function, list of 1-3). Oracle: the "
    "check drives solver.step(dispatcher) itself and observes what was "
    "dispatched: it must be one of the available operations (model filter "
    "criterion), on an eligible machine (machines[0] for the first chooser), "
    "and best under the rule's criterion computed by the independent model "
    "(MOR accepted under both readings of 'remaining'); score rules: scores "
    "obtained by calling the scoring functions in the same state, dispatched "
    "score tuple lexicographically maximal among available operations; direct "
    "and observer-based MWKR return the identical operation in every state, "
    "also on a twin dispatcher where the observer-based rule is first used in "
    "a generated later state; "
    "after num_operations steps the schedule is complete and feasible; "
    "solver(instance) returns a complete feasible schedule with elapsed_time "
    ">= 0 and solved_by == class name (also for a user subclass); "
    "solve(instance, dispatcher) finishes a partially dispatched dispatcher (optionally one that went through an earlier episode and a reset()). Non-trivial: some state offered >=2 "
    "available operations with different criterion values."
)
BUDGET = {"quick": 1500, "thorough": 10000}
ASSUMPTIONS = [
    "termination is decided by a step bound (num_operations solver steps), not wall clock",
    "random rule / random chooser: membership only",
]

RULE_FUNCS = {
    "shortest_processing_time": shortest_processing_time_rule,
    "first_come_first_served": first_come_first_served_rule,
    "most_work_remaining": most_work_remaining_rule,
    "most_operations_remaining": most_operations_remaining_rule,
    "random": random_operation_rule,
}
SCORERS = ["spt", "fcfs", "mor", "mwkr"]


def strategy(tier):
    big = tier == "thorough"
    # small duration ranges make ties between scores (and hence tie-breaking)
    # common
    inst = st.sampled_from([1, 2, 3, 9, 9]).flatmap(
        lambda md: gen.weighted(
            (
                5,
                gen.instances(
                    max_jobs=6 if big else 5,
                    max_ops=5,
                    max_machines=5,
                    max_total=30 if big else 20,
                    max_duration=md,
                    benchmarks=("ft06",),
                ),
            ),
            # many short jobs (ties between jobs with ids >= 8)
            (
                1,
                gen.instances(
                    min_jobs=9,
                    max_jobs=12,
                    max_ops=2,
                    max_machines=4,
                    max_total=24,
                    max_duration=md,
                ),
            ),
        )
    )
    def lifted(i):
        # large durations that differ by little (10**6 + x): relative
        # differences of 1e-6, every job total still exact in float32
        i = dict(i)
        i["durations"] = [[(10**6 + x) if x else 0 for x in row] for row in i["durations"]]
        return i

    plain = inst
    inst = st.integers(0, 10007).flatmap(lambda r: plain.map(lifted) if r % 6 == 0 else plain)
    typed = st.tuples(
        st.just("type"),
        st.integers(0, 9999).map(lambda i: sorted(RULE_FUNCS)[i % 5]),
        st.integers(0, 3),
    ).map(list)
    obs = st.just(["observer_mwkr"])
    score = st.tuples(st.just("score"), st.sampled_from(SCORERS)).map(list)
    tie = st.tuples(
        st.just("tie"), st.lists(st.sampled_from(SCORERS), min_size=1, max_size=3)
    ).map(list)
    rule = gen.weighted((5, typed), (1, obs), (2, score), (5, tie))
    one = st.tuples(st.sampled_from(gen.FILTER_NAMES), st.integers(0, 2)).map(list)
    filt = st.one_of(
        st.just("default"),
        st.none(),
        one.map(lambda x: ["single", x]),
        st.lists(one, min_size=1, max_size=3).map(lambda x: ["list", x]),
    )
    return st.fixed_dictionaries(
        {
            "inst": inst,
            "rule": rule,
            "chooser": st.sampled_from(["first", "random", "FIRST_ENUM", "RANDOM_ENUM", "custom_last"]),
            "filter": filt,
            "seed": st.integers(0, 1000),
        }
    )


def _spell_filter(name, how):
    if how == 0:
        return name
    if how == 1:
        return ReadyOperationsFilterType(name)
    return FILTER_FUNCS[name]


def build_solver(case):
    """Returns (solver, filter names for the model, scorers or None, kind)."""
    rule = case["rule"]
    scorers = None
    if rule[0] == "type":
        name, how = rule[1], rule[2]
        r = [name, DispatchingRuleType(name), RULE_FUNCS[name], name.upper()][how]
        kind = name
    elif rule[0] == "observer_mwkr":
        r = observer_based_most_work_remaining_rule
        kind = "most_work_remaining"
    else:
        table = {
            "spt": shortest_processing_time_score,
            "fcfs": first_come_first_served_score,
            "mor": most_operations_remaining_score,
            "mwkr": MostWorkRemainingScorer(),
        }
        if rule[0] == "score":
            scorers = [table[rule[1]]]
            r = score_based_rule(scorers[0])
        else:
            scorers = [table[x] for x in rule[1]]
            r = score_based_rule_with_tie_breaker(scorers)
        kind = "scores"
    chooser = {
        "first": "first",
        "random": "random",
        "FIRST_ENUM": MachineChooserType.FIRST,
        "RANDOM_ENUM": MachineChooserType.RANDOM,
        "custom_last": lambda _dispatcher, operation: operation.machines[-1],
    }[case["chooser"]]
    f = case["filter"]
    if f == "default":
        solver = DispatchingRuleSolver(r, chooser)
        names = ["dominated_operations", "non_idle_machines"]
    elif f is None:
        solver = DispatchingRuleSolver(r, chooser, ready_operations_filter=None)
        names = None
    elif f[0] == "single":
        solver = DispatchingRuleSolver(
            r, chooser, ready_operations_filter=_spell_filter(*f[1])
        )
        names = [f[1][0]]
    else:
        solver = DispatchingRuleSolver(
            r, chooser, ready_operations_filter=[_spell_filter(*x) for x in f[1]]
        )
        names = [x[0] for x in f[1]]
    return solver, names, scorers, kind


def check_case(case, ctx):
    inst = case["inst"]
    instance = build_instance(inst)
    solver, names, scorers, kind = build_solver(case)
    random.seed(case["seed"])
    d = Dispatcher(instance, solver.ready_operations_filter)
    # twin on which the observer-based rule is first used in a later state
    instance_late = build_instance(inst)
    d_late = Dispatcher(instance_late, solver.ready_operations_filter)
    if case["seed"] % 2:
        # the caller's dispatcher already carries observers of its own that do
        # not track job features
        from job_shop_lib.dispatching.feature_observers import (
            DurationObserver,
            FeatureType,
            IsReadyObserver,
        )

        DurationObserver(d_late, feature_types=[FeatureType.OPERATIONS])
        IsReadyObserver(d_late, feature_types=[FeatureType.OPERATIONS, FeatureType.MACHINES])
    late_from = case["seed"] % 7
    m = ref(inst)
    n = m.n_ops
    dur, mach = inst["durations"], inst["machines"]
    had_choice = False
    for k in range(n):
        real_avail = [fp.jp(o) for o in d.available_operations()]
        avail = m.available(names)
        if avail is None:
            ready = m.ready()
            ctx.check(
                bool(real_avail) and all(x in ready for x in real_avail),
                "available-sublist",
                f"step {k}: available {real_avail} not a non-empty sub-list of {ready}",
            )
            avail = real_avail
        ctx.check(
            real_avail == avail,
            "available-vs-model",
            f"step {k}: available_operations() {real_avail} != model {avail} (filters {names})",
        )
        avail_now = m.min_start(avail)
        # MWKR equivalence in every state
        a1 = most_work_remaining_rule(d)
        a2 = observer_based_most_work_remaining_rule(d)
        ctx.check(
            a1 is a2,
            "mwkr-equivalence",
            f"step {k} (history {m.order}): direct MWKR picks {fp.jp(a1)}, observer-based picks {fp.jp(a2)}",
        )
        if k >= late_from:
            b1 = most_work_remaining_rule(d_late)
            b2 = observer_based_most_work_remaining_rule(d_late)
            ctx.check(
                b1 is b2,
                "mwkr-equivalence-late",
                f"step {k} (history {m.order}; observer-based rule first used at step {late_from}): "
                f"direct MWKR picks {fp.jp(b1)}, observer-based picks {fp.jp(b2)}",
            )
        score_rows = None
        if scorers is not None:
            score_rows = [list(s(d)) for s in scorers]
        if kind != "random":
            # a rule is a read-only function of the state: asking it (twice)
            # changes neither its answer nor what the dispatcher reports
            r1 = solver.dispatching_rule(d)
            r2 = solver.dispatching_rule(d)
            ctx.check(r1 is r2, "rule-not-deterministic", f"step {k}: the rule returned {fp.jp(r1)} then {fp.jp(r2)} in the same state")
            again = [fp.jp(o) for o in d.available_operations()]
            ctx.check(
                again == real_avail and [fp.jp(o) for o in d.raw_ready_operations()] == m.ready(),
                "rule-changed-state",
                f"step {k}: after calling the rule available_operations() is {again}, was {real_avail}",
            )
        before = [len(lst) for lst in d.schedule.schedule]
        solver.step(d)
        after = [len(lst) for lst in d.schedule.schedule]
        grown = [i for i in range(len(after)) if after[i] != before[i]]
        ctx.check(
            len(grown) == 1 and after[grown[0]] == before[grown[0]] + 1,
            "one-dispatch-per-step",
            f"step {k}: machine list lengths {before} -> {after}",
        )
        so = d.schedule.schedule[grown[0]][-1]
        j, p = fp.jp(so.operation)
        mm = so.machine_id
        where = f"step {k} (history {m.order}): dispatched ({j},{p}) on {mm}; available {avail}"
        ctx.check((j, p) in avail, "not-available", where)
        ctx.check(mm in mach[j][p], "machine-not-eligible", where)
        if case["chooser"] in ("first", "FIRST_ENUM"):
            ctx.check(
                mm == mach[j][p][0],
                "first-chooser",
                f"{where}: first chooser must pick {mach[j][p][0]}",
            )
        if case["chooser"] == "custom_last":
            ctx.check(
                mm == mach[j][p][-1],
                "custom-chooser-ignored",
                f"{where}: the machine chooser passed to the solver picks {mach[j][p][-1]}",
            )
        # criterion
        rem_work = [sum(dur[x][m.next[x]:]) for x in range(m.n_jobs)]
        if kind == "shortest_processing_time":
            vals = {op: -dur[op[0]][op[1]] for op in avail}
        elif kind == "first_come_first_served":
            vals = {op: -op[1] for op in avail}
        elif kind == "most_work_remaining":
            vals = {op: rem_work[op[0]] for op in avail}
        elif kind == "most_operations_remaining":
            uns = [len(dur[x]) - m.next[x] for x in range(m.n_jobs)]
            ong = [0] * m.n_jobs
            for jj, _p, _m, _s, e in m.order:
                if e > avail_now:
                    ong[jj] += 1
            v1 = {op: uns[op[0]] for op in avail}
            v2 = {op: uns[op[0]] + ong[op[0]] for op in avail}
            ok = v1[(j, p)] == max(v1.values()) or v2[(j, p)] == max(v2.values())
            ctx.check(ok, "criterion:most_operations_remaining", f"{where}: remaining ops unscheduled {v1} / uncompleted {v2}")
            vals = v1
            if len(set(v1.values())) > 1:
                had_choice = True
            vals = None
        elif kind == "random":
            vals = None
        else:
            vals = {op: tuple(row[op[0]] for row in score_rows) for op in avail}
        if vals is not None:
            best = max(vals.values())
            ctx.check(
                vals[(j, p)] == best,
                "criterion:" + kind,
                f"{where}: criterion values {vals}, best {best}",
            )
            if len(set(vals.values())) > 1:
                had_choice = True
        m.apply(j, mm)
        d_late.dispatch(instance_late.jobs[j][p], mm)
        ctx.count("steps")
    rows = fp.schedule_rows(d.schedule)
    ctx.check(d.schedule.is_complete(), "not-complete", f"incomplete after {n} steps")
    probs = feasible.problems(dur, mach, rows)
    ctx.check(not probs, "infeasible", f"{probs[:3]}")
    # solve() handed a dispatcher on which part of the work is already done
    n_pre = case["seed"] % (n + 1)
    inst_pre = build_instance(inst)
    own_filter = [solver.ready_operations_filter, None, FILTER_FUNCS["dominated_operations"]][case["seed"] % 3]
    d_pre = Dispatcher(inst_pre, own_filter)
    if (case["seed"] // 3) % 2:
        # the dispatcher has been through an earlier (partial or whole)
        # episode and a reset() before it is handed over
        n_old = 1 + (case["seed"] // 6) % n
        for jj, pp, mm2, _s, _e in m.order[:n_old]:
            d_pre.dispatch(inst_pre.jobs[jj][pp], mm2)
        d_pre.schedule.makespan()
        d_pre.reset()
        ctx.label("solve_after_reset")
    for jj, pp, mm2, _s, _e in m.order[:n_pre]:
        d_pre.dispatch(inst_pre.jobs[jj][pp], mm2)
    random.seed(case["seed"] + 2)
    res = solver.solve(inst_pre, d_pre)
    ctx.check(
        d_pre.ready_operations_filter is own_filter,
        "solver-changed-dispatcher-filter",
        "solve(instance, dispatcher) replaced the ready_operations_filter of the dispatcher it was handed",
    )
    rows_pre = fp.schedule_rows(res)
    ctx.check(
        res.is_complete() and feasible.is_complete(dur, rows_pre),
        "solve-with-dispatcher-incomplete",
        f"solve(instance, dispatcher) with {n_pre} operations already dispatched returned an incomplete schedule",
    )
    probs = feasible.problems(dur, mach, rows_pre)
    ctx.check(not probs, "solve-with-dispatcher-infeasible", f"{probs[:3]}")

    # a user subclass of the solver records its own class name
    class CustomRuleSolver(DispatchingRuleSolver):
        pass

    sub = CustomRuleSolver(solver.dispatching_rule, solver.machine_chooser, solver.ready_operations_filter)
    random.seed(case["seed"] + 3)
    sub_sched = sub(build_instance(inst))
    ctx.check(
        sub_sched.metadata.get("solved_by") == "CustomRuleSolver",
        "solved_by",
        f"subclass CustomRuleSolver recorded solved_by={sub_sched.metadata.get('solved_by')!r}",
    )
    # a portfolio-style user solver whose solve() obtains its schedule from
    # another solver: calling IT records ITS class name and a non-negative time
    from job_shop_lib import BaseSolver

    class BestOfTwo(BaseSolver):
        def solve(self, instance):
            first = DispatchingRuleSolver("most_work_remaining")(instance)
            second = solver(instance)
            return first if first.makespan() <= second.makespan() else second

    random.seed(case["seed"] + 4)
    outer = BestOfTwo()(build_instance(inst))
    ctx.check(
        outer.metadata.get("solved_by") == "BestOfTwo"
        and isinstance(outer.metadata.get("elapsed_time"), float)
        and outer.metadata.get("elapsed_time") >= 0,
        "solved_by",
        f"a solver that returns another solver's schedule recorded solved_by={outer.metadata.get('solved_by')!r}, "
        f"elapsed_time={outer.metadata.get('elapsed_time')!r}",
    )
    # direct call
    random.seed(case["seed"] + 1)
    instance2 = build_instance(inst)
    sched = solver(instance2)
    rows2 = fp.schedule_rows(sched)
    ctx.check(sched.is_complete() and feasible.is_complete(dur, rows2), "call-not-complete", "solver(instance) incomplete")
    probs = feasible.problems(dur, mach, rows2)
    ctx.check(not probs, "call-infeasible", f"{probs[:3]}")
    et = sched.metadata.get("elapsed_time")
    ctx.check(
        isinstance(et, float) and et >= 0,
        "elapsed_time",
        f"metadata['elapsed_time'] = {et!r}",
    )
    ctx.check(
        sched.metadata.get("solved_by") == "DispatchingRuleSolver",
        "solved_by",
        f"metadata['solved_by'] = {sched.metadata.get('solved_by')!r}",
    )
    if case["chooser"] in ("first", "FIRST_ENUM", "custom_last") and kind not in ("random",):
        ctx.check(
            fp.schedule(sched) == fp.schedule(d.schedule),
            "solve-vs-steps",
            "deterministic solver: solver(instance) differs from stepping the solver manually",
        )
    ctx.label(*gen.inst_labels(inst))
    ctx.label("rule=" + (kind if case["rule"][0] != "observer_mwkr" else "observer_mwkr"))
    ctx.label("filter=" + ("default" if case["filter"] == "default" else "none" if names is None else "custom"))
    ctx.nontrivial = had_choice
