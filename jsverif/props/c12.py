"""C12 - reset makes everything indistinguishable from new."""

from __future__ import annotations

from hypothesis import strategies as st

from job_shop_lib.dispatching import (
    Dispatcher,
    DispatcherObserverConfig,
    HistoryObserver,
    UnscheduledOperationsObserver,
)
from job_shop_lib.dispatching.feature_observers import CompositeFeatureObserver
from job_shop_lib.graphs.graph_updaters import ResidualGraphUpdater
from job_shop_lib.reinforcement_learning import SingleJobShopGraphEnv

from .. import gen, obs
from .. import fingerprint as fp
from ..lib import build_filter, build_instance, ref

ID = "C12"
RULE = (
    "Generated: instance x optional filter x observer configuration WITH "
    "CREATION ORDER (a generated sequence over: feature observers of the 7 "
    "types with generated feature types, UnscheduledOperationsObserver, "
    "HistoryObserver, MakespanReward, IdleTimeReward, ResidualGraphUpdater "
    "over a generated builder and flags, CompositeFeatureObserver over the "
    "feature observers created so far) x 1-3 abandoned partial or complete "
    "histories each followed by reset() x a final history h2; and the same "
    "through SingleJobShopGraphEnv (generated observer configs, reward, "
    "updater flags, builder, filter) with env.reset() after each abandoned "
    "episode. Oracle: differential against fresh objects built with the same "
    "creation order: the deep snapshot (tracking vectors, schedule, all "
    "queries, every observer's features / rewards / history / unscheduled "
    "deques / graph nodes, removed flags and typed edges) after the last reset "
    "and after every step of h2 must equal the fresh objects' snapshot; for "
    "the environment the reset observation and every (obs, reward, done, "
    "truncated, available operations) tuple must be equal. Non-trivial: the "
    "configuration contains an observer that depends on another "
    "(RemainingOperations, IsCompleted, ResidualGraphUpdater, Composite), "
    "some abandoned history has >=2 dispatches and h2 has >=3."
)
BUDGET = {"quick": 600, "thorough": 4000}
ASSUMPTIONS = [
    "both sides are built with the same creation order, so the reset is the only difference",
]

DEPENDENT = {"remaining_operations", "is_completed", "updater", "composite"}


def strategy(tier):
    big = tier == "thorough"
    inst = gen.instances(max_jobs=4, max_ops=5, max_machines=4, max_total=18 if big else 14, big_ok=True)
    feat = obs.feature_configs(min_size=1, max_size=1).map(lambda l: ["feature"] + l[0])
    item = gen.weighted(
        (8, feat),
        (1, st.just(["unscheduled"])),
        (1, st.just(["history"])),
        (1, st.just(["makespan"])),
        (1, st.just(["idle"])),
        (2, st.tuples(st.just("updater"), gen.pick(sorted(obs.BUILDERS)), st.booleans(), st.booleans()).map(list)),
        (2, st.just(["composite"])),
    )
    return st.fixed_dictionaries(
        {
            "inst": inst,
            "filters": gen.filter_configs(max_len=2),
            "items": st.lists(item, min_size=1, max_size=8),
            "abandoned": st.lists(
                st.tuples(gen.histories(max_len=18), st.integers(0, 18)).map(list),
                min_size=1,
                max_size=3,
            ),
            "h2": gen.histories(max_len=18),
            "late": st.one_of(st.just(0), st.just(0), st.integers(1, 3)),
            "env": st.fixed_dictionaries(
                {
                    "builder": gen.pick(sorted(obs.BUILDERS)),
                    "features": obs.feature_configs(min_size=1, max_size=4),
                    "reward": st.sampled_from(sorted(obs.REWARDS)),
                    "flags": st.tuples(st.booleans(), st.booleans()).map(list),
                    "fresh_reset": st.booleans(),
                }
            ),
        }
    )


def build_world(case, instance, items=None, world=None):
    """Creates the observers of `items` (default: all) on a new dispatcher, or
    continues on an existing world (dispatcher, singles, features)."""
    if world is None:
        world = (Dispatcher(instance, build_filter(case["filters"])), set(), [])
    d, singles, features = world
    for item in case["items"] if items is None else items:
        kind = item[0]
        if kind == "feature":
            features.append(obs.make_feature_observer(d, item[1:]))
        elif kind in ("unscheduled", "history", "makespan", "idle"):
            cls = {
                "unscheduled": UnscheduledOperationsObserver,
                "history": HistoryObserver,
                "makespan": obs.REWARDS["makespan"],
                "idle": obs.REWARDS["idle"],
            }[kind]
            if any(isinstance(s, cls) for s in d.subscribers):
                continue  # singleton already there (possibly auto-created)
            cls(d)
        elif kind == "updater":
            if "updater" in singles:
                continue
            singles.add("updater")
            ResidualGraphUpdater(
                d,
                obs.BUILDERS[item[1]](instance),
                remove_completed_machine_nodes=item[2],
                remove_completed_job_nodes=item[3],
            )
        elif kind == "composite":
            if features:
                CompositeFeatureObserver(d, feature_observers=list(features))
    return world


def drive(d, instance, inst, history, limit, trace=None):
    model = ref(inst)
    n = model.n_ops if limit is None else min(limit, model.n_ops)
    for k in range(n):
        a, b = history[k] if k < len(history) else (0, 0)
        ready = model.ready()
        j, p = ready[a % len(ready)]
        ms = inst["machines"][j][p]
        m = ms[b % len(ms)]
        d.dispatch(instance.jobs[j][p], m)
        model.apply(j, m)
        if trace is not None:
            trace.append(((j, p, m), obs.full_snapshot(d)))
    return n


def env_world(case, instance):
    e = case["env"]
    return SingleJobShopGraphEnv(
        obs.BUILDERS[e["builder"]](instance),
        [obs.observer_config(c) for c in e["features"]],
        reward_function_config=DispatcherObserverConfig(obs.REWARDS[e["reward"]]),
        graph_updater_config=DispatcherObserverConfig(
            ResidualGraphUpdater,
            kwargs={
                "remove_completed_machine_nodes": e["flags"][0],
                "remove_completed_job_nodes": e["flags"][1],
            },
        ),
        ready_operations_filter=build_filter(case["filters"]),
    )


def env_drive(env, inst, history, limit, trace=None, direct=False):
    model = ref(inst)
    n = model.n_ops if limit is None else min(limit, model.n_ops)
    for k in range(n):
        a, b = history[k] if k < len(history) else (0, 0)
        ready = model.ready()
        j, p = ready[a % len(ready)]
        ms = inst["machines"][j][p]
        m = ms[b % len(ms)]
        if direct:
            # (a warm start played on the environment's public dispatcher)
            env.dispatcher.dispatch(env.dispatcher.instance.jobs[j][p], m)
            model.apply(j, m)
            continue
        o, r, done, trunc, info = env.step((j, m))
        model.apply(j, m)
        if trace is not None:
            trace.append(
                (
                    (j, m),
                    obs.obs_snapshot(o),
                    r,
                    done,
                    trunc,
                    tuple(fp.jp(x) for x in info["available_operations"]),
                    obs.full_snapshot(env.dispatcher),
                )
            )
    return n


def check_case(case, ctx):
    inst = case["inst"]
    # ---- dispatcher level
    inst_a, inst_b = build_instance(inst), build_instance(inst)
    # the last `late` observers of the configuration are created while the
    # first (abandoned) episode is already under way - e.g. lazily, on first
    # use; after the reset they too must look like new
    late = min(case.get("late", 0), len(case["items"]) - 1)
    early_items = case["items"][: len(case["items"]) - late]
    late_items = case["items"][len(case["items"]) - late :]
    used_world = build_world(case, inst_a, early_items)
    used = used_world[0]
    fresh = build_world(case, inst_b)[0]
    longest = 0
    for idx, (hist, limit) in enumerate(case["abandoned"]):
        longest = max(longest, drive(used, inst_a, inst, hist, limit))
        if idx == 0 and late_items:
            build_world(case, inst_a, late_items, used_world)
            ctx.label("late_created_observers")
        used.reset()
        ctx.count("resets")
    s_used, s_fresh = obs.full_snapshot(used), obs.full_snapshot(fresh)
    if s_used != s_fresh:
        ctx.fail(
            "after-reset",
            f"state after reset differs from freshly constructed objects "
            f"(items {case['items']}): {obs.diff_snapshots(s_used, s_fresh)}",
        )
    t_used, t_fresh = [], []
    n2 = drive(used, inst_a, inst, case["h2"], None, t_used)
    drive(fresh, inst_b, inst, case["h2"], None, t_fresh)
    for k, (x, y) in enumerate(zip(t_used, t_fresh)):
        if x != y:
            ctx.fail(
                "replay-after-reset",
                f"step {k} {x[0]} after reset differs from the same step on fresh objects "
                f"(items {case['items']}): {obs.diff_snapshots(x[1], y[1])}",
            )
    # ---- environment level
    env_a, env_b = env_world(case, build_instance(inst)), env_world(case, build_instance(inst))
    env_a.reset()
    for k_ab, (hist, limit) in enumerate(case["abandoned"]):
        # every other abandoned history is played on env.dispatcher directly
        # (a rule-based warm start) instead of through env.step
        env_drive(env_a, inst, hist, limit, direct=bool((k_ab + len(hist)) % 2))
        o_a, info_a = env_a.reset()
        ctx.count("env_resets")
    if case["env"]["fresh_reset"]:
        o_b, info_b = env_b.reset()
    else:
        o_b, info_b = env_b.get_observation(), {}
    if obs.obs_snapshot(o_a) != obs.obs_snapshot(o_b):
        ctx.fail(
            "env-reset-observation",
            f"observation returned by env.reset() after an episode differs from a fresh environment's "
            f"(env config {case['env']}): {obs.diff_snapshots(obs.obs_snapshot(o_a), obs.obs_snapshot(o_b))}",
        )
    ctx.check(info_a == info_b, "env-reset-info", f"reset info {info_a} vs {info_b}")
    sa, sb = obs.full_snapshot(env_a.dispatcher), obs.full_snapshot(env_b.dispatcher)
    if sa != sb:
        ctx.fail("env-after-reset", f"env internals after reset differ from fresh: {obs.diff_snapshots(sa, sb)}")
    e_used, e_fresh = [], []
    env_drive(env_a, inst, case["h2"], None, e_used)
    env_drive(env_b, inst, case["h2"], None, e_fresh)
    for k, (x, y) in enumerate(zip(e_used, e_fresh)):
        if x != y:
            ctx.fail(
                "env-episode-differs",
                f"env step {k} {x[0]} in a later episode differs from the first episode of a fresh env "
                f"(env config {case['env']}): {obs.diff_snapshots(x, y)}",
            )
    kinds = {it[0] if it[0] != "feature" else it[1] for it in case["items"]}
    ctx.label(*gen.inst_labels(inst))
    ctx.label(*["has=" + k for k in kinds & DEPENDENT])
    ctx.label(f"resets={len(case['abandoned'])}")
    ctx.nontrivial = bool(kinds & DEPENDENT) and longest >= 2 and n2 >= 3
