"""C17 - the residual graph hides only the decided and everything done."""

from __future__ import annotations

from hypothesis import strategies as st

from job_shop_lib.dispatching import Dispatcher
from job_shop_lib.dispatching.feature_observers import IsCompletedObserver
from job_shop_lib.graphs.graph_updaters import ResidualGraphUpdater

from .. import gen, obs
from ..lib import build_filter, build_instance, disturb, fork, ref

ID = "C17"
RULE = (
    "Generated: positive-duration instance (flexible or not, unused machine "
    "ids included) x graph builder (4) x updater flags "
    "(remove_completed_machine_nodes / job_nodes) x optional filter "
    "composition x whether an IsCompletedObserver already exists x optionally a composite over the subscribed feature observers whose matrices the caller overwrites in place after every dispatch x optionally (disjunctive builder) job nodes and a global node added from the public building blocks x choice "
    "sequence (among available operations); updater attached before the first "
    "dispatch or after 1-6 dispatches (the completion clause is then asserted when every job and machine still had an operation to schedule at that moment); optionally 1-3 resets, the checks continuing in every following episode; optionally the dispatcher (updater included) is deep-copied at a generated step, the original played on, and the checks continue on the copy and its graph. Oracle after every "
    "dispatch with the independent model's scheduled / completed sets: "
    "completed ops subseteq removed op nodes subseteq scheduled ops; a machine "
    "(job) node is removed only if every operation eligible on it (of it) is "
    "scheduled; removed_k subseteq removed_k+1; removed_nodes[i] <=> node i "
    "absent from the networkx graph; every remaining edge joins non-removed "
    "nodes; with default flags, on instances where every machine id is used, "
    "at completion every flag is True and the networkx graph is empty. "
    "Non-trivial: a step where some scheduled operation is not yet completed "
    "and a machine or job node removed before the last step."
)
BUDGET = {"quick": 600, "thorough": 12000}
ASSUMPTIONS = ["positive durations only (the statement's domain)"]


def strategy(tier):
    big = tier == "thorough"
    kw = dict(max_jobs=5, max_ops=5, max_machines=4, max_total=22 if big else 15, zero_ok=False)
    inst = gen.weighted((2, gen.instances(**kw)), (1, gen.instances(flexible=True, **kw)))
    return st.fixed_dictionaries(
        {
            "inst": inst,
            "builder": gen.pick(sorted(obs.BUILDERS)),
            "flags": gen.weighted(
                (3, st.just([True, True])), (2, st.tuples(st.booleans(), st.booleans()).map(list))
            ),
            "filters": gen.filter_configs(max_len=2, custom=True),
            "pre_observer": st.sampled_from([None, None, ["machines", "jobs"], ["operations"], ["jobs"]]),
            "history": gen.histories(max_len=44),
            "reset_at": st.one_of(st.none(), st.integers(0, 20)),
            "fork": gen.pick([None, 1, None, 0, None, 4, None, 2]),
            "scribble": gen.pick([False, False, True]),
            "job_nodes_only": gen.pick([False, True]),
            "extra_resets": st.integers(0, 2),
            "deferred": st.booleans(),
            "attach_after": st.one_of(st.just(0), st.just(0), st.integers(1, 6)),
            "reversed_machine_nodes": st.booleans(),
        }
    )


def fixed_cases(tier):
    """One machine with more than 255 operations (counters must not wrap)."""
    n = 260
    return [
        {
            "inst": {
                "durations": [[1 + j % 3] if j % 20 else [2, 1] for j in range(n)],
                "machines": [[[0]] if j % 20 else [[0], [1]] for j in range(n)],
                "name": "wide",
                "meta": {},
                "ints": True,
                "family": "fixed",
            },
            "builder": b,
            "flags": [True, True],
            "filters": None,
            "pre_observer": None,
            "history": [[(7 * k) % 5, 0] for k in range(40)],
            "reset_at": None,
            "extra_resets": 0,
            "deferred": False,
            "attach_after": 0,
            "reversed_machine_nodes": False,
        }
        for b in (["agent_task"] if tier == "quick" else ["agent_task", "complete_agent_task"])
    ]


def check_case(case, ctx):
    inst = case["inst"]
    instance = build_instance(inst)
    d = Dispatcher(instance, build_filter(case["filters"]))
    if case["pre_observer"]:
        obs.make_feature_observer(d, ["is_completed", case["pre_observer"], 0])
    graph = obs.BUILDERS[case["builder"]](instance)
    if case.get("reversed_machine_nodes") and case["builder"] == "agent_task":
        # the same graph composed from the public building blocks with the
        # machine nodes added in reverse order
        from job_shop_lib.graphs import (
            JobShopGraph,
            Node,
            NodeType,
            add_machine_machine_edges,
            add_operation_machine_edges,
            add_same_job_operations_edges,
        )

        graph = JobShopGraph(instance)
        for x in reversed(range(instance.num_machines)):
            graph.add_node(Node(node_type=NodeType.MACHINE, machine_id=x))
        add_operation_machine_edges(graph)
        add_machine_machine_edges(graph)
        add_same_job_operations_edges(graph)
        ctx.label("custom_node_order")
    if case.get("job_nodes_only") and case["builder"] == "disjunctive":
        # the disjunctive graph extended with job nodes and a global node
        # from the public building blocks (job nodes, but no machine nodes)
        from job_shop_lib.graphs import (
            add_global_node,
            add_job_global_edges,
            add_job_nodes,
            add_operation_job_edges,
        )

        add_job_nodes(graph)
        add_operation_job_edges(graph)
        add_global_node(graph)
        add_job_global_edges(graph)
        ctx.label("job_nodes_without_machine_nodes")
    flags = case["flags"]
    deferred = bool(case.get("deferred"))
    attach_after = min(case.get("attach_after", 0), ref(inst).n_ops - 1)
    pre_model = ref(inst)
    for k in range(attach_after):
        # the episode is already under way when the updater is attached
        avail = pre_model.available(case["filters"])
        j, p = avail[k % len(avail)]
        x = inst["machines"][j][p][0]
        d.dispatch(instance.jobs[j][p], x)
        pre_model.apply(j, x)
    # an updater attached mid-run still owes the completion clause when, at that
    # moment, every job and every machine has an operation yet to be scheduled
    # (it never sees jobs / machines that were finished before)
    left_at_attach = pre_model.unscheduled()
    attach_sees_all = (
        {jj for (jj, _pp) in left_at_attach} == set(range(len(inst["machines"])))
        and {x for (jj, pp) in left_at_attach for x in inst["machines"][jj][pp]}
        == {x for row in inst["machines"] for ms in row for x in ms}
    )
    if attach_after and attach_sees_all:
        ctx.label("attached_midrun_all_jobs_and_machines_pending")
    upd = ResidualGraphUpdater(
        d,
        graph,
        subscribe=not deferred,
        remove_completed_machine_nodes=flags[0],
        remove_completed_job_nodes=flags[1],
    )
    if deferred:
        d.subscribe(upd)  # attached by hand, still before the first dispatch
        ctx.label("deferred_subscription")
    scribble = None
    if case.get("scribble"):
        # a consumer of the features (a composite over all subscribed feature
        # observers, as an environment has) rescales the matrices it is given
        # in place after every dispatch
        from job_shop_lib.dispatching.feature_observers import CompositeFeatureObserver

        scribble = CompositeFeatureObserver(d)
        ctx.label("features_edited_in_place")
    dur, mach = inst["durations"], inst["machines"]
    used = {x for row in mach for ms in row for x in ms}
    all_used = len(used) == 1 + max(used)
    history = case["history"]
    lag = early = False
    pos = 0
    episodes = (2 + case.get("extra_resets", 0)) if case["reset_at"] is not None else 1
    fork_at = case.get("fork")
    for ep in range(episodes):
        m = ref(inst) if not (ep == 0 and attach_after) else pre_model
        prev_removed = None
        n = m.n_ops
        limit = n if ep == episodes - 1 else min(case["reset_at"], n)
        for k in range(m.count(), limit):
            if fork_at is not None and k >= fork_at:
                # a planner deep-copies the dispatcher (updater included); the
                # original is played on for a few steps and the checks
                # continue on the copy and ITS graph
                fork_at = None
                idx = next(i for i, s_ in enumerate(d.subscribers) if s_ is upd)
                clone, cmodel = fork(d, m)
                disturb(d, m, inst, 3)
                d, m, upd, instance = clone, cmodel, clone.subscribers[idx], clone.instance
                ctx.label("forked")
            a, b = history[pos] if pos < len(history) else (0, 0)
            pos += 1
            avail = m.available(case["filters"])
            if not avail:
                ctx.fail("deadlock", f"no available operation at step {k}")
                return
            j, p = avail[a % len(avail)]
            ms = mach[j][p]
            x = ms[b % len(ms)]
            d.dispatch(instance.jobs[j][p], x)
            m.apply(j, x)
            if scribble is not None:
                for arr in scribble.features.values():
                    arr *= 0.0
                    arr += 1.0
            g = upd.job_shop_graph
            removed = [bool(r) for r in g.removed_nodes]
            now = m.min_start(m.available(case["filters"]))
            scheduled = set(m.scheduled())
            completed = set(m.completed(now))
            where = f"episode {ep} after dispatch {k} ({j},{p}) on {x} (history {[(a_, b_, c_) for (a_, b_, c_, _s, _e) in m.order]}, now {now}, builder {case['builder']}, flags {flags})"
            ctx.check(len(removed) == len(g.nodes), "flags-length", f"{where}: {len(removed)} flags for {len(g.nodes)} nodes")
            present = set(g.graph.nodes)
            for nd in g.nodes:
                i = nd.node_id
                ctx.check(
                    removed[i] == (i not in present),
                    "flag-vs-graph",
                    f"{where}: removed_nodes[{i}]={removed[i]} but node present={i in present}",
                )
                t = nd.node_type.name
                if t == "OPERATION":
                    op = (nd.operation.job_id, nd.operation.position_in_job)
                    if op in completed:
                        ctx.check(removed[i], "completed-not-removed", f"{where}: completed operation {op} still in the graph")
                    if op not in scheduled:
                        ctx.check(not removed[i], "unscheduled-removed", f"{where}: unscheduled operation {op} was removed")
                elif t == "MACHINE" and removed[i]:
                    left = [(jj, pp) for (jj, pp) in m.unscheduled() if nd.machine_id in mach[jj][pp]]
                    ctx.check(not left, "machine-removed-early", f"{where}: machine {nd.machine_id} removed while {left} are unscheduled")
                    if k < n - 1:
                        early = True
                elif t == "JOB" and removed[i]:
                    ctx.check(
                        m.next[nd.job_id] == len(dur[nd.job_id]),
                        "job-removed-early",
                        f"{where}: job {nd.job_id} node removed with unscheduled operations",
                    )
                    if k < n - 1:
                        early = True
            for u, v in g.graph.edges():
                ctx.check(
                    not removed[u] and not removed[v],
                    "edge-touches-removed",
                    f"{where}: edge ({u},{v}) touches a removed node",
                )
            if prev_removed is not None:
                back = [i for i, r in enumerate(prev_removed) if r and not removed[i]]
                ctx.check(not back, "removal-not-permanent", f"{where}: nodes {back} came back")
            prev_removed = removed
            if scheduled - completed:
                lag = True
            ctx.count("steps")
        # (an updater attached while the episode is under way never sees the
        # jobs / machines that were finished before - also on the unchanged
        # tree - so the completion clause presupposes attachment from the start,
        # or at a moment when every job and machine still had work to schedule)
        if m.complete() and flags == [True, True] and all_used and (not (ep == 0 and attach_after) or attach_sees_all):
            g = upd.job_shop_graph
            ctx.check(
                all(g.removed_nodes) and g.graph.number_of_nodes() == 0,
                "not-all-removed-at-completion",
                f"episode {ep}: schedule complete but nodes "
                f"{[(nd.node_type.name, nd.node_id) for nd in g.nodes if not g.removed_nodes[nd.node_id]]} remain "
                f"(builder {case['builder']}, history {[(a_, b_, c_) for (a_, b_, c_, _s, _e) in m.order]})",
            )
            ctx.count("completions_checked")
        if ep < episodes - 1:
            d.reset()
            g = upd.job_shop_graph
            ctx.check(
                not any(g.removed_nodes) and g.graph.number_of_nodes() == len(g.nodes),
                "reset-graph",
                "after reset the graph is not the initial one",
            )
    n_obs = sum(1 for s in d.subscribers if isinstance(s, IsCompletedObserver))
    ctx.label(*gen.inst_labels(inst))
    ctx.label("builder=" + case["builder"], f"flags={flags}", f"is_completed_observers={n_obs}")
    ctx.nontrivial = lag and early
