"""C03 - the CP-SAT solver returns feasible, truly optimal schedules."""

from __future__ import annotations

from hypothesis import strategies as st

from job_shop_lib.constraint_programming import ORToolsSolver
from job_shop_lib.dispatching.rules import DispatchingRuleSolver
from job_shop_lib.exceptions import NoSolutionFoundError

from .. import feasible, gen
from .. import fingerprint as fp
from ..lib import build_instance, build_jobs, instance_from_jobs
from ..model import opt_makespan

ID = "C03"
MAX_WORKERS = 4  # CP-SAT spawns its own threads
RULE = (
    "Generated: non-flexible instance, durations >= 0 (zeros weighted up), "
    "recirculation and irregular jobs, half of them carrying metadata entries named like bounds that are not theirs; kind 'small' (<=9 ops quick, <=11 "
    "thorough; a share of them with 2**53 + 1 added to every positive duration, i.e. times not representable as a double): exact optimum from the independent exhaustive search; kind "
    "'history': 2-4 instances solved one after another by the SAME "
    "ORToolsSolver object, each result compared with a fresh solver's; kind "
    "'large' (<=6x6): bounds only; fixed cases: benchmark instances with "
    "recorded optimum and a tiny-time-limit run. Oracle: schedule complete and "
    "feasible for THIS instance (independent checker), metadata makespan == "
    "schedule makespan == checker's max end, status in {optimal, feasible}, "
    "solved_by, elapsed_time >= 0; optimal => makespan == OPT (small) / >= job "
    "and machine lower bounds, >= recorded lower bound, == recorded optimum, "
    "<= every dispatching-rule result; no exception without a time limit; with "
    "a limit only NoSolutionFoundError or a feasible schedule; model of the "
    "solver object after solve has 2*ops+1 variables. Non-trivial: OPT above "
    "both trivial lower bounds, or a zero-duration operation tying in start "
    "time with another operation on its machine in the returned schedule."
)
BUDGET = {"quick": 400, "thorough": 4000}
ASSUMPTIONS = [
    "why CP-SAT stopped is not observable; 'only when a time limit prevented it' is decided as: never an exception without a limit",
    "CP-SAT is multi-threaded: schedules are compared by validity and objective value, never by identity",
    "beyond 2**52 only feasibility, completeness and metadata makespan == schedule makespan are asserted: OR-tools holds bounds and gap limits as doubles and reports an off-by-one schedule as optimal there (observed on the unchanged tree; a limit of the external solver, not of job_shop_lib)",
]


def strategy(tier):
    big = tier == "thorough"
    small = gen.instances(
        max_jobs=4,
        max_ops=4,
        max_machines=3,
        max_total=11 if big else 9,
        flexible=False,
        zero_ok=True,
        big_ok=True,
    )
    large = gen.instances(
        max_jobs=6, max_ops=6, max_machines=6, max_total=36, flexible=False, zero_ok=True
    )
    k_small = small.map(lambda i: {"kind": "small", "insts": [i]})
    k_hist = st.lists(small, min_size=2, max_size=4).map(
        lambda l: {"kind": "history", "insts": l}
    )
    k_large = large.map(lambda i: {"kind": "large", "insts": [i]})
    # times beyond 2**53 (not representable as a double), within CP-SAT's
    # integer range: 2**53 + 1 added to every positive duration of an
    # instance with small durations
    plain = gen.instances(
        max_jobs=3, max_ops=3, max_machines=3, max_total=8, flexible=False, zero_ok=True
    )

    def beyond_double(i):
        i = dict(i)
        i["durations"] = [[(2**53 + 1 + x) if x else 0 for x in row] for row in i["durations"]]
        return {"kind": "small", "insts": [i]}

    k_53 = plain.map(beyond_double)
    return gen.weighted((5, k_small), (3, k_hist), (1, k_large), (1, k_53))


def fixed_cases(tier):
    names = ["ft06", "la01"] if tier == "quick" else ["ft06", "la01", "la02", "la03", "la04", "la05"]
    cases = [{"kind": "bench", "insts": [gen.benchmark_case(n)]} for n in names]
    cases.append({"kind": "limit", "insts": [gen.benchmark_case("la21")], "limit": 0.02})
    cases.append({"kind": "limit", "insts": [gen.benchmark_case("ta01")], "limit": 0.2})
    cases.append({"kind": "limit", "insts": [gen.benchmark_case("ta41")], "limit": 0.0005})
    cases.append({"kind": "limit_then_unlimited", "insts": [gen.benchmark_case("ta41"), gen.benchmark_case("ft06")], "limit": 1e-9})
    return cases


def lower_bounds(inst):
    d, m = inst["durations"], inst["machines"]
    job_lb = max(sum(r) for r in d)
    loads = {}
    for rj, rm in zip(d, m):
        for x, ms in zip(rj, rm):
            loads[ms[0]] = loads.get(ms[0], 0) + x
    return job_lb, max(loads.values())


def check_result(ctx, inst, instance, sched, where, opt=None):
    d, m = inst["durations"], inst["machines"]
    ctx.check(sched.instance is instance, "wrong-instance", f"{where}: schedule.instance is not the solved instance")
    for lst in sched.schedule:
        for so in lst:
            j, p = fp.jp(so.operation)
            ctx.check(
                0 <= j < len(instance.jobs)
                and 0 <= p < len(instance.jobs[j])
                and so.operation is instance.jobs[j][p],
                "foreign-operation",
                f"{where}: scheduled operation ({j},{p}) is not an operation of the solved instance",
            )
    rows = fp.schedule_rows(sched)
    probs = feasible.problems(d, m, rows, partial=False)
    ctx.check(not probs, "infeasible", f"{where}: {probs[:3]}")
    ctx.check(
        sched.is_complete() and feasible.is_complete(d, rows),
        "incomplete",
        f"{where}: schedule not complete",
    )
    mk = feasible.makespan(rows)
    meta = sched.metadata
    ctx.check(
        meta.get("makespan") == sched.makespan() == mk,
        "makespan-metadata",
        f"{where}: metadata makespan {meta.get('makespan')}, schedule.makespan() {sched.makespan()}, max end {mk}",
    )
    ctx.check(meta.get("status") in ("optimal", "feasible"), "status", f"{where}: status {meta.get('status')!r}")
    ctx.check(meta.get("solved_by") == "ORToolsSolver", "solved_by", f"{where}: {meta.get('solved_by')!r}")
    et = meta.get("elapsed_time")
    ctx.check(isinstance(et, float) and et >= 0, "elapsed_time", f"{where}: {et!r}")
    job_lb, mach_lb = lower_bounds(inst)
    ctx.check(mk >= max(job_lb, mach_lb), "below-lower-bound", f"{where}: makespan {mk} < lower bound {max(job_lb, mach_lb)}")
    if opt is not None:
        ctx.check(mk >= opt, "below-optimum", f"{where}: makespan {mk} below the exact optimum {opt}")
        # CP-SAT decides optimality through bounds and gap limits held as
        # doubles: beyond 2**53 an off-by-one schedule is reported "optimal"
        # by OR-tools itself (seen on the unchanged tree), so the claim of
        # optimality is only asserted below that
        exact_range = opt < 2**52
        if not exact_range:
            ctx.count("optimality_not_asserted_beyond_2**52")
        if meta.get("status") == "optimal" and exact_range:
            ctx.check(
                mk == opt,
                "not-optimal",
                f"{where}: status optimal with makespan {mk}, exact optimum is {opt}",
            )
    return mk, meta.get("status")


def zero_tie(rows):
    for lst in rows:
        for a, b in zip(lst, lst[1:]):
            if a[2] == b[2] and (a[2] == a[3] or b[2] == b[3]):
                return True
    return False


def _with_metadata(inst):
    """Instances carry free-form metadata; entries that look like bounds
    (here deliberately not the instance's own) are information, not input."""
    if inst.get("meta") or sum(len(r) for r in inst["durations"]) % 2:
        return inst
    job_lb, mach_lb = lower_bounds(inst)
    out = dict(inst)
    out["meta"] = {"lower_bound": max(job_lb, mach_lb) + 2, "upper_bound": 1, "optimum": 0}
    return out


def check_case(case, ctx):
    kind = case["kind"]
    insts = case["insts"]
    if kind in ("small", "history", "large"):
        insts = [_with_metadata(i) for i in insts]
    ctx.label("kind=" + kind)
    if kind == "limit":
        inst = insts[0]
        instance = build_instance(inst)
        solver = ORToolsSolver(max_time_in_seconds=case["limit"])
        try:
            sched = solver(instance)
        except NoSolutionFoundError:
            ctx.count("limit_no_solution")
        else:
            check_result(ctx, inst, instance, sched, "time-limited solve")
            ctx.count("limit_solution")
        ctx.nontrivial = True
        return
    # half of the cases: a solver with a time limit far above what is needed
    generous = sum(len(r) for r in insts[0]["durations"]) % 2 == 0
    if kind == "limit_then_unlimited":
        # the documented public attribute is changed between two solves
        solver = ORToolsSolver(max_time_in_seconds=case["limit"])
        big_i = build_instance(insts[0])
        try:
            check_result(ctx, insts[0], big_i, solver.solve(big_i), "solve with a 1 ns limit")
        except NoSolutionFoundError:
            ctx.count("limit_no_solution")
        solver.max_time_in_seconds = None
        small_i = build_instance(insts[1])
        res = solver.solve(small_i)  # no limit configured any more: must succeed
        mk, status = check_result(ctx, insts[1], small_i, res, "solve after max_time_in_seconds was set back to None")
        ctx.check(status == "optimal" and mk == 55, "limit-leaked", f"ft06 after removing the limit: {status} {mk}")
        ctx.nontrivial = True
        return
    shared = ORToolsSolver(max_time_in_seconds=60.0) if generous else ORToolsSolver()
    if generous:
        ctx.label("generous_time_limit")
    instance = sched = fresh = instance2 = None
    keep_alive = len(insts) % 2 == 1  # a caller that collects the results
    kept = []
    for k, inst in enumerate(insts):
        # a caller solving short-lived instances in a loop: nothing of the
        # previous iteration is kept alive (object ids may be reused)
        # (object ids may be reused: the operations of the next instance
        # are built first so that the instance object itself is the first
        # allocation after the previous one is freed)
        jobs = build_jobs(inst)
        old_id = id(instance)
        if keep_alive and sched is not None:
            kept.append((insts[k - 1], instance, sched))
        del instance, sched, fresh, instance2
        fresh = instance2 = None
        instance = instance_from_jobs(inst, jobs)
        if k and id(instance) == old_id:
            ctx.count("instance_id_reused")
        where = f"{kind} solve #{k}"
        n_ops = gen.num_ops(inst)
        opt = None
        if kind in ("small", "history"):
            opt = opt_makespan(inst["durations"], inst["machines"])
        sched = shared.solve(instance) if k % 2 == 0 else shared(instance)
        mk, status = check_result(ctx, inst, instance, sched, where + " (shared solver)", opt)
        n_vars = len(shared.model.Proto().variables)
        ctx.check(
            n_vars == 2 * n_ops + 1,
            "stale-model",
            f"{where}: solver.model has {n_vars} variables after solving an instance with {n_ops} operations",
        )
        if kind == "history":
            instance2 = build_instance(inst)
            fresh = ORToolsSolver().solve(instance2)
            mk2, status2 = check_result(ctx, inst, instance2, fresh, where + " (fresh solver)", opt)
            ctx.check(
                (mk, status) == (mk2, status2),
                "depends-on-history",
                f"{where}: shared solver gives ({mk},{status}), fresh solver ({mk2},{status2})",
            )
        if kind in ("large", "bench", "small"):
            for rule in ("most_work_remaining", "shortest_processing_time", "first_come_first_served", "most_operations_remaining"):
                rs = DispatchingRuleSolver(rule).solve(build_instance(inst))
                if status == "optimal" and mk < 2**52:
                    ctx.check(
                        mk <= rs.makespan(),
                        "worse-than-rule",
                        f"{where}: optimal makespan {mk} > {rule} makespan {rs.makespan()}",
                    )
        if kind == "bench":
            import json
            import os

            repo = os.environ.get("JSL_REPO", "/repo")
            with open(os.path.join(repo, "job_shop_lib/benchmarking/benchmark_instances.json"), encoding="utf-8") as f:
                meta = json.load(f)[inst["name"]]["metadata"]
            if meta.get("lower_bound") is not None:
                ctx.check(mk >= meta["lower_bound"], "below-recorded-bound", f"{where}: {mk} < recorded lower bound {meta['lower_bound']}")
            if meta.get("optimum") is not None and status == "optimal":
                ctx.check(mk == meta["optimum"], "recorded-optimum", f"{where}: optimal {mk} != recorded optimum {meta['optimum']}")
        # results handed out earlier are not touched by later solves
        for k0, (inst0, instance0, sched0) in enumerate(kept):
            rows0 = fp.schedule_rows(sched0)
            ctx.check(
                sched0.metadata.get("makespan") == sched0.makespan() == feasible.makespan(rows0)
                and not feasible.problems(inst0["durations"], inst0["machines"], rows0, partial=False)
                and sched0.instance is instance0,
                "earlier-result-changed",
                f"after solve #{k} the schedule returned by solve #{k0} reports metadata "
                f"{sched0.metadata.get('makespan')} / makespan {sched0.makespan()}",
            )
        ctx.count("solves")
        ctx.label(*gen.inst_labels(inst))
        job_lb, mach_lb = lower_bounds(inst)
        if (opt is not None and opt > max(job_lb, mach_lb)) or zero_tie(fp.schedule_rows(sched)) or kind == "bench":
            ctx.nontrivial = True
