"""C20 - Gantt charts and animations show the schedule that was built."""

from __future__ import annotations

import os
import shutil
import tempfile

import matplotlib

matplotlib.use("Agg")
import imageio  # noqa: E402
import matplotlib.pyplot as plt  # noqa: E402
import numpy as np  # noqa: E402
from hypothesis import strategies as st  # noqa: E402
from matplotlib.collections import PolyCollection  # noqa: E402

from job_shop_lib.dispatching import Dispatcher, HistoryObserver  # noqa: E402
from job_shop_lib.visualization import (  # noqa: E402
    GanttChartCreator,
    create_gantt_chart_frames,
    create_gantt_chart_gif,
    create_gantt_chart_video,
    get_partial_gantt_chart_plotter,
    plot_gantt_chart,
)

from .. import gen  # noqa: E402
from .. import fingerprint as fp  # noqa: E402
from ..lib import build_instance, ref  # noqa: E402

ID = "C20"
RULE = (
    "Generated, kind 'chart': instance (all shapes, flexible, zero durations) "
    "x schedule prefix (history cut anywhere, incl. empty and complete) x xlim "
    "(None or >= makespan) x colour map / job labels, optionally with one job stretched by 300 (bars far narrower than a pixel), optionally on a dispatcher that went through an earlier whole episode and a reset(), through "
    "plot_gantt_chart and GanttChartCreator.plot_gantt_chart: the PolyCollections "
    "of the Axes are read back - their multiset of (x0, x1, y0, y1, colour) "
    "must equal {(start, end, 1+10m, 10+10m, colour(job))} over scheduled "
    "operations, colour a function of the job, injective over the jobs shown (asserted for instances of at most 10 jobs: a qualitative colour map has ten colours) "
    "and equal to the legend patch with that job's label, legend labels = jobs "
    "shown in order, x axis = (0, xlim or makespan) with the last tick there "
    "(when positive); job labels may repeat; plotting leaves the schedule object unchanged and the run can be finished from it; optionally a second chart of another schedule of the same instance is drawn before the first is inspected. Kind 'anim': instance x history of n operations (n in "
    "1..30, or 100..130 - forced by a fixed case in every run), frames "
    "directory with digits in its path: (i) short histories: a wrapper around "
    "the library's plotter records at its k-th call the schedule it is given "
    "and the bars of the figure it returns - exactly the first k operations; "
    "through create_gantt_chart_frames (recorded history, or a solver whose "
    "own dispatch sequence is then the history), create_gantt_chart_gif (also with the history list kept from before a reset and a second recorded episode) and "
    "GanttChartCreator.create_gif (also for the second episode on the same "
    "dispatcher); (ii) frame ORDER in the written file: a "
    "custom plot function draws k = number of scheduled operations as a "
    "binary block pattern, the GIF (and, thorough tier, the mp4) is read back "
    "and decoded; the sequence must be 1..n - also when the frames differ in pixel width, when the caller's own existing frames directory is used for a second, shorter animation, and when frames are kept (remove_frames=False) and the directory is used again for an animation of the same length (the plot function must be called for every frame again). Non-trivial: chart with >=2 jobs "
    "and >=2 machines carrying bars; animation with n >= 100."
)
BUDGET = {"quick": 100, "thorough": 800}
ASSUMPTIONS = [
    "bars are read from matplotlib PolyCollections (broken_barh); the Agg backend is used",
    "axis-limit clause asserted only for a positive limit (matplotlib widens the degenerate interval [0, 0] itself)",
    "mp4 decoding uses the ffmpeg binary bundled with imageio-ffmpeg; skipped (and counted) if unavailable",
]


def strategy(tier):
    big = tier == "thorough"
    inst = gen.instances(min_jobs=2, max_jobs=5, max_ops=5, max_machines=4, max_total=16, with_text=True)
    chart = st.fixed_dictionaries(
        {
            "kind": st.just("chart"),
            "inst": inst,
            "history": gen.histories(max_len=16),
            "cut": gen.weighted((1, st.none()), (3, st.integers(0, 12))),
            "xlim_extra": st.one_of(st.none(), st.integers(0, 7)),
            "cmap": st.sampled_from(["viridis", "tab10", "plasma"]),
            "labels": st.booleans(),
            "via_creator": st.booleans(),
            "earlier": gen.pick([False, True, False]),
            "second_chart": gen.pick([False, False, True]),
            "stretch": gen.pick([0, 0, 0, 300, 0, 0, 0, 0]),
        }
    )
    short = st.fixed_dictionaries(
        {
            "kind": st.just("anim"),
            "inst": gen.instances(min_jobs=2, max_jobs=4, max_ops=4, max_machines=3, max_total=8),
            "history": gen.histories(max_len=10),
            "mode": gen.pick(
                ["frames", "gif", "gif_kept_history", "creator", "creator_second_episode", "solver", "order", "order_creator_history", "order_frames_dir", "order_varying_size"]
            ),
            "rule": gen.pick(["most_work_remaining", "shortest_processing_time", "first_come_first_served", "most_operations_remaining"]),
        }
    )

    @st.composite
    def long_(draw):
        n_j = draw(st.integers(5, 10))
        n = draw(st.integers(100, 130))
        base, rem = divmod(n, n_j)
        lens = [base + (1 if j < rem else 0) for j in range(n_j)]
        n_m = draw(st.integers(2, 4))
        dur = st.integers(1, 4)
        return {
            "kind": "anim",
            "inst": {
                "durations": [[draw(dur) for _ in range(ln)] for ln in lens],
                "machines": [[[draw(st.integers(0, n_m - 1))] for _ in range(ln)] for ln in lens],
                "name": "long",
                "meta": {},
                "ints": True,
                "family": "long",
            },
            "history": draw(gen.histories(max_len=130, max_a=15)),
            "mode": draw(gen.pick(["order", "order_video"] if big else ["order"])),
        }

    @st.composite
    def many_jobs(draw):
        # more than 10 / more than 15 jobs: two-digit job labels, long legends
        n_j = draw(st.integers(11, 18))
        n_m = draw(st.integers(2, 4))
        return {
            "durations": [[draw(st.integers(1, 4))] + ([draw(st.integers(1, 3))] if draw(st.integers(0, 4)) == 0 else []) for _ in range(n_j)],
            "machines": None,
            "n_m": n_m,
        }

    def finish(i):
        i = dict(i)
        n_m = i.pop("n_m")
        i["machines"] = [[[(j + 2 * p) % n_m] for p in range(len(row))] for j, row in enumerate(i["durations"])]
        i.update({"name": "many", "meta": {}, "ints": True, "family": "many_jobs"})
        return i

    many = many_jobs().map(finish)
    many_anim = st.fixed_dictionaries(
        {
            "kind": st.just("anim"),
            "inst": many,
            "history": gen.histories(max_len=24, max_a=31),
            "mode": gen.pick(["gif", "creator", "frames", "solver", "order_creator_history"]),
            "rule": gen.pick(["most_work_remaining", "shortest_processing_time"]),
        }
    )
    many_chart = st.fixed_dictionaries(
        {
            "kind": st.just("chart"),
            "inst": many,
            "history": gen.histories(max_len=24, max_a=31),
            "cut": gen.weighted((2, st.none()), (1, st.integers(11, 20))),
            "xlim_extra": st.one_of(st.none(), st.integers(0, 7)),
            "cmap": st.sampled_from(["viridis", "tab10"]),
            "labels": st.booleans(),
            "via_creator": st.booleans(),
            "earlier": st.just(False),
            "second_chart": st.just(False),
        }
    )
    if big:
        return gen.weighted((12, chart), (4, short), (1, long_()), (2, many_anim), (2, many_chart))
    return gen.weighted((9, chart), (6, short), (1, many_anim), (2, many_chart))


def fixed_cases(tier):
    """A deterministic 104-operation animation in every run (the
    file-name-ordering region), frames directory with digits in its path."""
    lens = [11, 11, 11, 11, 10, 10, 10, 10, 10, 10]
    inst = {
        "durations": [[1 + (j + p) % 3 for p in range(ln)] for j, ln in enumerate(lens)],
        "machines": [[[(j + 2 * p) % 4] for p in range(ln)] for j, ln in enumerate(lens)],
        "name": "long",
        "meta": {},
        "ints": True,
        "family": "long",
    }
    hist = [[(7 * k + 3) % 10, 0] for k in range(104)]
    cases = [{"kind": "anim", "inst": inst, "history": hist, "mode": "order"}]
    # small deterministic cases: the operation dispatched last is not the one
    # that finishes last; a partial chart in which job 0 has no bar yet
    small = {
        "durations": [[5, 1], [1], [2, 2]],
        "machines": [[[0], [1]], [[3]], [[2], [0]]],
        "name": "small",
        "meta": {},
        "ints": True,
        "family": "fixed",
    }
    for mode in ("frames", "gif", "gif_kept_history", "creator", "creator_second_episode", "solver", "order_frames_dir", "order_varying_size"):
        cases.append(
            {"kind": "anim", "inst": small, "history": [[0, 0], [2, 0], [2, 0], [0, 0], [0, 0]], "mode": mode, "rule": "most_work_remaining"}
        )
    cases.append(
        {
            "kind": "chart",
            "inst": small,
            "history": [[2, 0], [1, 0]],
            "cut": 2,
            "xlim_extra": None,
            "cmap": "viridis",
            "labels": False,
            "via_creator": False,
        }
    )
    cases.append(
        {
            "kind": "chart",
            "inst": small,
            "history": [[2, 0], [1, 0], [0, 0]],
            "cut": 3,
            "xlim_extra": 2,
            "cmap": "viridis",
            "labels": True,  # (history length 3: labels repeat)
            "via_creator": False,
        }
    )
    # custom labels on a partial chart in which job 1 has no bar yet
    cases.append(
        {
            "kind": "chart",
            "inst": small,
            "history": [[2, 0], [0, 0]],
            "cut": 2,
            "xlim_extra": None,
            "cmap": "tab10",
            "labels": True,
            "via_creator": False,
        }
    )
    # more than 10 jobs (two-digit legend labels) through the default plotter,
    # and a chart whose legend has 17 entries
    twelve = {
        "durations": [[1 + (j % 3), 1 + ((2 * j) % 4)] for j in range(12)],
        "machines": [[[j % 3], [(j + 1) % 3]] for j in range(12)],
        "name": "twelve",
        "meta": {},
        "ints": True,
        "family": "many_jobs",
    }
    for mode in ("gif", "creator"):
        cases.append({"kind": "anim", "inst": twelve, "history": [[k, 0] for k in range(24)], "mode": mode, "rule": "most_work_remaining"})
    seventeen = {
        "durations": [[1 + (j % 4)] for j in range(17)],
        "machines": [[[j % 4]] for j in range(17)],
        "name": "seventeen",
        "meta": {},
        "ints": True,
        "family": "many_jobs",
    }
    for via in (False, True):
        cases.append(
            {"kind": "chart", "inst": seventeen, "history": [[3 * k, 0] for k in range(17)], "cut": None, "xlim_extra": None, "cmap": "viridis", "labels": False, "via_creator": via}
        )
    if tier == "thorough":
        cases.append({"kind": "anim", "inst": inst, "history": hist, "mode": "order_video"})
        cases.append({"kind": "anim", "inst": twelve, "history": [[k, 0] for k in range(24)], "mode": "order_video"})
    return cases


# ------------------------------------------------------------------ helpers


def dispatch_history(inst, instance, history, cut=None, earlier=False):
    d = Dispatcher(instance)
    hist = HistoryObserver(d)
    if earlier:
        # the dispatcher went through another whole episode (whose makespan
        # was looked at) and a reset() before the history that is plotted
        old = ref(inst)
        while not old.complete():
            j, p = old.ready()[-1]
            m = inst["machines"][j][p][-1]
            d.dispatch(instance.jobs[j][p], m)
            old.apply(j, m)
        d.schedule.makespan()
        d.current_time()
        d.reset()
    model = ref(inst)
    n = model.n_ops if cut is None else min(cut, model.n_ops)
    for k in range(n):
        a, b = history[k] if k < len(history) else (0, 0)
        ready = model.ready()
        j, p = ready[a % len(ready)]
        ms = inst["machines"][j][p]
        m = ms[b % len(ms)]
        d.dispatch(instance.jobs[j][p], m)
        model.apply(j, m)
    return d, hist, model


def bars_of(ax):
    out = []
    for coll in ax.collections:
        if not isinstance(coll, PolyCollection):
            continue
        paths = coll.get_paths()
        fc = coll.get_facecolor()
        for i, path in enumerate(paths):
            v = path.vertices
            xs, ys = v[:, 0], v[:, 1]
            color = tuple(round(float(c), 6) for c in (fc[i] if len(fc) > i else fc[0]))
            out.append((float(xs.min()), float(xs.max()), float(ys.min()), float(ys.max()), color))
    return out


def check_chart_axes(ctx, ax, model, n_jobs, where, xlim=None, job_labels=None, check_axis=True):
    bars = bars_of(ax)
    n_coll = sum(1 for c in ax.collections if isinstance(c, PolyCollection))
    want_geo = sorted(
        (float(s), float(e), float(1 + 10 * m), float(10 + 10 * m), j)
        for (j, p, m, s, e) in model.order
    )
    ctx.check(
        n_coll == len(model.order) and len(bars) == len(model.order),
        "bar-count",
        f"{where}: {n_coll} bar collections / {len(bars)} bars for {len(model.order)} scheduled operations",
    )
    got_geo = sorted(b[:4] for b in bars)
    ctx.check(
        got_geo == [w[:4] for w in want_geo],
        "bar-geometry",
        f"{where}: bars {got_geo} expected {[w[:4] for w in want_geo]}",
    )
    # colour per job: match bars to operations by geometry
    by_geo = {}
    for b in bars:
        by_geo.setdefault(b[:4], []).append(b[4])
    colour_of = {}
    for geo_j in want_geo:
        geo, j = geo_j[:4], geo_j[4]
        cols = by_geo.get(geo, [])
        # several operations may share a geometry only if zero-width; take any
        if not cols:
            continue
        c = cols.pop()
        colour_of.setdefault(j, set()).add(c)
    identical_geo = len({w[:4] for w in want_geo}) != len(want_geo)
    if not identical_geo:
        for j, cs in colour_of.items():
            ctx.check(len(cs) == 1, "colour-not-per-job", f"{where}: job {j} drawn with colours {cs}")
        flat = {j: next(iter(cs)) for j, cs in colour_of.items()}
        # distinct jobs get distinct colours whenever the colour map has
        # enough of them (a qualitative map such as tab10 has ten)
        if n_jobs <= 10:
            ctx.check(
                len(set(flat.values())) == len(flat),
                "colour-not-injective",
                f"{where}: two jobs share a colour: {flat}",
            )
        legend = ax.get_legend()
        jobs_shown = sorted(flat)
        if legend is not None:
            handles = list(legend.legend_handles)
            labels = [t.get_text() for t in legend.get_texts()]
            want_labels = [job_labels[j] if job_labels else f"Job {j}" for j in jobs_shown]
            ctx.check(labels == want_labels, "legend-labels", f"{where}: legend labels {labels} expected {want_labels}")
            for h, j in zip(handles, jobs_shown):
                hc = tuple(round(float(c), 6) for c in h.get_facecolor())
                ctx.check(
                    hc == flat[j],
                    "legend-colour",
                    f"{where}: legend patch for job {j} has colour {hc}, its bars {flat[j]}",
                )
        else:
            ctx.check(not jobs_shown, "legend-missing", f"{where}: no legend although jobs {jobs_shown} are drawn")
    if check_axis:
        limit = xlim if xlim is not None else model.makespan()
        if limit > 0:
            got = tuple(float(x) for x in ax.get_xlim())
            ctx.check(got == (0.0, float(limit)), "x-axis-limit", f"{where}: xlim {got} expected (0, {limit})")
            ticks = [float(t) for t in ax.get_xticks()]
            ctx.check(
                bool(ticks) and ticks[-1] == float(limit) and ticks[0] == 0.0,
                "x-axis-ticks",
                f"{where}: ticks {ticks[:3]}..{ticks[-3:]} do not end at {limit}",
            )
    return len({m for (_j, _p, m, _s, _e) in model.order}), len({j for (j, *_r) in model.order})


def chart_case(case, ctx):
    inst = case["inst"]
    if case.get("stretch"):
        # one job takes hundreds of time units, the others one or two: bars
        # far narrower than a pixel next to a long time axis
        inst = dict(inst)
        inst["durations"] = [
            [x * case["stretch"] for x in row] if j == 0 else list(row) for j, row in enumerate(inst["durations"])
        ]
        ctx.label("stretched_axis")
    instance = build_instance(inst)
    d, _hist, model = dispatch_history(
        inst, instance, case["history"], case["cut"], earlier=case.get("earlier", False)
    )
    if case.get("earlier"):
        ctx.label("chart_after_reset")
    n_jobs = len(inst["durations"])
    labels = [f"J{j}x" for j in range(n_jobs)] if case["labels"] else None
    if case["labels"] and len(case["history"]) % 3 == 0:
        # several jobs may carry the same label (two product types)
        labels = [["Gear", "Shaft"][j % 2] for j in range(n_jobs)]
        ctx.label("repeated_job_labels")
    rows_before = fp.schedule(d.schedule)
    try:
        if case["via_creator"]:
            creator = GanttChartCreator(d, partial_gantt_chart_plotter_config={"cmap": case["cmap"]})
            fig = creator.plot_gantt_chart()
            ax = fig.axes[0]
            machines, jobs = check_chart_axes(ctx, ax, model, n_jobs, "GanttChartCreator.plot_gantt_chart()")
        else:
            xlim = None if case["xlim_extra"] is None else model.makespan() + case["xlim_extra"]
            fig, ax = plot_gantt_chart(
                d.schedule, cmap_name=case["cmap"], xlim=xlim, job_labels=labels
            )
            other = None
            if case.get("second_chart"):
                # a second chart of another schedule of the same instance is
                # drawn (for a side-by-side comparison) before the first one
                # is looked at
                d_o, _h, model_o = dispatch_history(
                    inst, instance, [[a + 1, b + 1] for a, b in case["history"]][::-1], (case["cut"] or 0) + 1
                )
                fig_o, ax_o = plot_gantt_chart(d_o.schedule, cmap_name=case["cmap"], job_labels=labels)
                other = (ax_o, model_o)
                ctx.label("two_charts_open")
            machines, jobs = check_chart_axes(
                ctx, ax, model, n_jobs, f"plot_gantt_chart(xlim={xlim})", xlim=xlim, job_labels=labels
            )
            if other is not None:
                check_chart_axes(
                    ctx, other[0], other[1], n_jobs, "plot_gantt_chart of a second schedule of the same instance",
                    job_labels=labels,
                )
    finally:
        plt.close("all")
    # drawing is a read-only use of the schedule: the dispatcher's schedule
    # is as it was, and the run can go on from it
    ctx.check(
        fp.schedule(d.schedule) == rows_before,
        "plot-changed-schedule",
        f"the schedule object was changed by plotting it: {fp.schedule_rows(d.schedule)}",
    )
    was_complete = model.complete()
    while not model.complete():
        j, p = model.ready()[0]
        mm = inst["machines"][j][p][0]
        d.dispatch(instance.jobs[j][p], mm)
        model.apply(j, mm)
    ctx.check(
        d.schedule.makespan() == model.makespan()
        and sorted(r for lst in fp.schedule_rows(d.schedule) for r in lst) == sorted((j, p, s, e, mm) for (j, p, mm, s, e) in model.order),
        "plot-changed-schedule",
        f"after a chart was drawn mid-run the finished schedule differs from its history: makespan {d.schedule.makespan()} vs {model.makespan()}",
    )
    ctx.label(*gen.inst_labels(inst))
    ctx.label("prefix" if not was_complete else "complete")
    ctx.nontrivial = machines >= 2 and jobs >= 2


# ------------------------------------------------------------------ animations

BITS = 8


def pattern_plotter(calls, vary=False, offset=0):
    """Plot function that encodes k = number of scheduled operations as
    [black][8 bit blocks, black = 1][black] on a white figure."""

    def plot(schedule, makespan=None, available_operations=None, current_time=None):
        k = schedule.num_scheduled_operations
        calls.append(k)
        k += offset  # (marks the frames of one run apart from another run's)
        # (vary: frames of different pixel widths, as figures with a tight
        # bounding box have)
        # (vary: wide-and-low and narrow-and-tall frames: no frame is largest in
        # both dimensions)
        wide = vary and k % 3 != 1
        fig = plt.figure(figsize=(2.4 + (0.8 if wide else 0.0), 0.4 if wide or not vary else 0.52), dpi=50)
        fig.patch.set_facecolor("white")
        ax = fig.add_axes([0.05, 0.1, 0.9, 0.8])
        row = [0.0] + [0.0 if (k >> (BITS - 1 - i)) & 1 else 1.0 for i in range(BITS)] + [0.0]
        ax.imshow(np.array([row]), cmap="gray", vmin=0, vmax=1, aspect="auto", interpolation="nearest")
        ax.set_axis_off()
        return fig

    return plot


def decode(frame):
    a = np.asarray(frame).astype(float)
    if a.ndim == 3:
        a = a[..., :3].mean(axis=2)
    # rows: ignore black padding rows at the bottom
    rows = np.where(a.max(axis=1) >= 128)[0]
    if len(rows) == 0:
        return None
    a = a[: rows[-1] + 1]
    mid = a[a.shape[0] // 2]
    is_dark = mid < 128
    # the video writer pads frames to a multiple of 16 pixels with black at
    # the right / bottom: ignore a dark run that touches the right border
    end = len(is_dark)
    while end > 0 and is_dark[end - 1]:
        end -= 1
    if end < len(is_dark) and end > 0:
        is_dark = is_dark[:end]
    dark = np.where(is_dark)[0]
    if len(dark) == 0:
        return None
    lo, hi = dark[0], dark[-1] + 1
    width = (hi - lo) / (BITS + 2)
    k = 0
    for i in range(BITS):
        c = int(lo + (i + 1.5) * width)
        col = a[:, c]
        bit = 1 if np.median(col[a.shape[0] // 4: 3 * a.shape[0] // 4]) < 128 else 0
        k = (k << 1) | bit
    return k


def anim_case(case, ctx):
    inst, mode = case["inst"], case["mode"]
    instance = build_instance(inst)
    case_creator = None
    if mode == "creator_second_episode":
        # the creator is attached before the first episode, as an environment does
        d0 = Dispatcher(instance)
        case_creator = GanttChartCreator(d0, gif_config={})
        d, hist, model = d0, case_creator.history_observer, ref(inst)
        for k in range(model.n_ops):
            a, b = case["history"][k] if k < len(case["history"]) else (0, 0)
            ready = model.ready()
            j, p = ready[a % len(ready)]
            ms = inst["machines"][j][p]
            mm = ms[b % len(ms)]
            d.dispatch(instance.jobs[j][p], mm)
            model.apply(j, mm)
    else:
        d, hist, model = dispatch_history(inst, instance, case["history"])
    n = model.n_ops
    history = list(hist.history)
    if mode == "gif_kept_history":
        # the caller keeps the recorded history of a first policy (the list
        # object the observer exposes), resets the dispatcher and records a
        # second policy before animating the first one
        history = hist.history
        d.reset()
        other = ref(inst)
        while not other.complete():
            j, p = other.ready()[-1]
            mm = inst["machines"][j][p][-1]
            d.dispatch(instance.jobs[j][p], mm)
            other.apply(j, mm)
    want_prefixes = [
        sorted((j, p, m, s, e) for (j, p, m, s, e) in model.order[:k]) for k in range(1, n + 1)
    ]
    tmp = tempfile.mkdtemp(prefix="c20_2024_")
    try:
        if mode == "solver":
            # frames produced from a solver instead of a recorded history:
            # the history is the solver's own dispatch sequence
            from job_shop_lib.dispatching.rules import DispatchingRuleSolver

            solver = DispatchingRuleSolver(case.get("rule", "most_work_remaining"))
            ref_d = Dispatcher(build_instance(inst), solver.ready_operations_filter)
            ref_h = HistoryObserver(ref_d)
            solver.solve(ref_d.instance, ref_d)
            model = ref(inst)
            for so in ref_h.history:
                model.apply(so.operation.job_id, so.machine_id)
        if mode == "creator_second_episode":
            # an abandoned first episode on the same dispatcher
            d.reset()
            model = ref(inst)
            second = case["history"][::-1]
            for k in range(model.n_ops):
                a, b = second[k] if k < len(second) else (0, 0)
                ready = model.ready()
                j, p = ready[a % len(ready)]
                ms = inst["machines"][j][p]
                mm = ms[b % len(ms)]
                d.dispatch(instance.jobs[j][p], mm)
                model.apply(j, mm)
        if mode in ("frames", "gif", "gif_kept_history", "creator", "creator_second_episode", "solver"):
            records = []
            extras = []
            inner = get_partial_gantt_chart_plotter()

            def wrapper(schedule, makespan=None, available_operations=None, current_time=None):
                fig = inner(schedule, makespan, available_operations, current_time)
                rows = sorted(r for lst in fp.schedule_rows(schedule) for r in lst)
                bars = sorted(b[:4] for b in bars_of(fig.axes[0]))
                xlim = tuple(float(x) for x in fig.axes[0].get_xlim())
                records.append((rows, bars, makespan, xlim))
                extras.append((None if available_operations is None else sorted(fp.jp(o) for o in available_operations), current_time))
                return fig

            if mode == "solver":
                frames_dir = os.path.join(tmp, "frames_31")
                os.mkdir(frames_dir)
                create_gantt_chart_frames(frames_dir, instance, solver, wrapper, True, None)
            elif mode == "frames":
                frames_dir = os.path.join(tmp, "frames_07")
                os.mkdir(frames_dir)
                create_gantt_chart_frames(frames_dir, instance, None, wrapper, len(history) % 2 == 0, history)
                files = sorted(os.listdir(frames_dir))
                ctx.check(len(files) == n, "frame-files", f"{len(files)} frame files for {n} operations")
            elif mode in ("gif", "gif_kept_history"):
                create_gantt_chart_gif(
                    instance,
                    gif_path=os.path.join(tmp, "out_1.gif"),
                    plot_function=wrapper,
                    schedule_history=history,
                    plot_current_time=len(history) % 2 == 1,
                )
                ctx.check(os.path.exists(os.path.join(tmp, "out_1.gif")), "gif-missing", "no GIF written")
                ctx.check(not os.path.exists(os.path.join(tmp, "out_1_frames")), "frames-not-removed", "frames dir left behind")
            elif mode == "creator_second_episode":
                creator = case_creator
                creator.gif_config["gif_path"] = os.path.join(tmp, "creator_4.gif")
                creator.partial_gantt_chart_plotter = wrapper
                creator.create_gif()
            else:
                creator = GanttChartCreator(
                    d, gif_config={"gif_path": os.path.join(tmp, "creator_3.gif")}
                )
                creator.partial_gantt_chart_plotter = wrapper
                creator.create_gif()
            ctx.check(len(records) == n, "plot-calls", f"plot function called {len(records)} times for {n} operations")
            mk = model.makespan()
            for k, (rows, bars, makespan, xlim) in enumerate(records, start=1):
                want = [(j, p, s, e, m) for (j, p, m, s, e) in model.order[:k]]
                ctx.check(
                    rows == sorted(want),
                    "frame-content",
                    f"frame {k}: schedule given to the plotter holds {rows}, expected the first {k} operations {sorted(want)}",
                )
                want_bars = sorted((float(s), float(e), float(1 + 10 * m), float(10 + 10 * m)) for (j, p, m, s, e) in model.order[:k])
                ctx.check(bars == want_bars, "frame-bars", f"frame {k}: bars {bars} expected {want_bars}")
                ctx.check(makespan == mk, "frame-makespan", f"frame {k}: plotter was given makespan {makespan}, final makespan is {mk}")
                if mk > 0:
                    ctx.check(xlim == (0.0, float(mk)), "frame-axis", f"frame {k}: x axis {xlim}, expected (0, {mk})")
                if mode in ("frames", "gif", "gif_kept_history") and k <= len(extras):
                    # the replay dispatcher (no filter) is in the state after k dispatches
                    mk_model = ref(inst)
                    for (j_, p_, m_, _s, _e) in model.order[:k]:
                        mk_model.apply(j_, m_)
                    avail_k, now_k = extras[k - 1]
                    ctx.check(
                        avail_k == sorted(mk_model.ready()),
                        "frame-available-operations",
                        f"frame {k}: plotter was given available operations {avail_k}, the state after {k} dispatches has {sorted(mk_model.ready())}",
                    )
                    ctx.check(
                        now_k is None or now_k == mk_model.min_start(mk_model.ready()),
                        "frame-current-time",
                        f"frame {k}: plotter was given current time {now_k}, expected {mk_model.min_start(mk_model.ready())}",
                    )
            # (the number of frames stored in these GIFs is not asserted: the
            # writer merges consecutive identical frames, e.g. zero-width bars)
            if mode == "creator" and n >= 2:
                # the same creator / plotter used again for a plain chart of a
                # different (shorter) schedule
                d.reset()
                model2 = ref(inst)
                for k in range(min(2, n)):
                    ready = model2.ready()
                    j, p = ready[-1]
                    mm = inst["machines"][j][p][0]
                    d.dispatch(instance.jobs[j][p], mm)
                    model2.apply(j, mm)
                fig = creator.plot_gantt_chart()
                check_chart_axes(
                    ctx, fig.axes[0], model2, len(inst["durations"]),
                    "GanttChartCreator.plot_gantt_chart() after create_gif() and a reset",
                )
        else:
            calls = []
            plotter = pattern_plotter(calls, vary=(mode == "order_varying_size"))
            if mode == "order_video":
                path = os.path.join(tmp, "video_5.mp4")
                try:
                    import imageio_ffmpeg  # noqa: F401

                    imageio_ffmpeg.get_ffmpeg_exe()
                except Exception:  # pylint: disable=broad-except
                    ctx.count("video_skipped_no_ffmpeg")
                    return
                create_gantt_chart_video(
                    instance, video_path=path, plot_function=plotter, schedule_history=history, fps=1
                )
                reader = imageio.get_reader(path)
                frames = [f for f in reader]
                reader.close()
            elif mode == "order_frames_dir":
                # the caller's own, already existing frames directory
                path = os.path.join(tmp, "fd_3.gif")
                fdir = os.path.join(tmp, "my_frames_12")
                os.mkdir(fdir)
                create_gantt_chart_gif(
                    instance, gif_path=path, plot_function=plotter, schedule_history=history, fps=10, frames_dir=fdir
                )
                frames = imageio.mimread(path, memtest=False)
            elif mode == "order_creator_history":
                path = os.path.join(tmp, "c_11.gif")
                creator = GanttChartCreator(d, gif_config={"gif_path": path, "fps": 5})
                creator.partial_gantt_chart_plotter = plotter
                creator.create_gif()
                frames = imageio.mimread(path, memtest=False)
            else:
                path = os.path.join(tmp, "order_9.gif")
                create_gantt_chart_gif(
                    instance, gif_path=path, plot_function=plotter, schedule_history=history, fps=10
                )
                frames = imageio.mimread(path, memtest=False)
            ctx.check(calls == list(range(1, n + 1)), "plot-call-order", f"plot function saw {calls[:12]}... expected 1..{n}")
            decoded = [decode(f) for f in frames]
            if mode == "order_video":
                # a video may repeat frames; collapse runs
                collapsed = [k for i, k in enumerate(decoded) if i == 0 or k != decoded[i - 1]]
                decoded = collapsed
            ctx.check(
                decoded == list(range(1, n + 1)),
                "frame-order",
                f"frames of the written file decode to {decoded[:15]}...{decoded[-5:]} (len {len(decoded)}), expected 1..{n}",
            )
            ctx.count("frames_decoded", len(decoded))
            if mode == "order_frames_dir":
                # the same directory used for a second, shorter animation
                n2 = max(1, n // 2)
                os.makedirs(fdir, exist_ok=True)
                del calls[:]
                path2 = os.path.join(tmp, "fd_4.gif")
                create_gantt_chart_gif(
                    instance, gif_path=path2, plot_function=plotter, schedule_history=history[:n2], fps=10, frames_dir=fdir
                )
                again = [decode(f) for f in imageio.mimread(path2, memtest=False)]
                ctx.check(calls == list(range(1, n2 + 1)), "plot-call-order", f"second animation in the same frames directory: plot function saw {calls[:12]}, expected 1..{n2}")
                ctx.check(
                    again == list(range(1, n2 + 1)),
                    "frame-order-reused-frames-dir",
                    f"a {n2}-operation animation made in the frames directory of an earlier {n}-operation one decodes to {again}",
                )
                # frames kept on request (remove_frames=False), then the same
                # directory used for another animation of the same length
                fdir2 = os.path.join(tmp, "kept_frames_7")
                for tag in ("fd_5.gif", "fd_6.gif"):
                    del calls[:]
                    path3 = os.path.join(tmp, tag)
                    create_gantt_chart_gif(
                        instance, gif_path=path3, plot_function=plotter, schedule_history=history, fps=10,
                        frames_dir=fdir2, remove_frames=False,
                    )
                    kept = [decode(f) for f in imageio.mimread(path3, memtest=False)]
                    ctx.check(calls == list(range(1, n + 1)), "plot-call-order", f"{tag} with remove_frames=False: plot function saw {calls[:12]}, expected 1..{n}")
                    ctx.check(kept == list(range(1, n + 1)), "frame-order-kept-frames", f"{tag} with remove_frames=False decodes to {kept}")
                    ctx.check(
                        os.path.isdir(fdir2) and len(os.listdir(fdir2)) == n,
                        "frames-kept",
                        f"remove_frames=False: frames directory holds {len(os.listdir(fdir2)) if os.path.isdir(fdir2) else 'nothing'} files for {n} operations",
                    )
            if mode == "order" and n >= 100:
                # frames kept on request from a run of 60 operations, then the
                # whole history animated into the same directory
                fdir3 = os.path.join(tmp, "kept_frames_60_then_all")
                for part, tag, off in ((history[:60], "fd_60.gif", 128), (history, "fd_all.gif", 0)):
                    del calls[:]
                    path4 = os.path.join(tmp, tag)
                    create_gantt_chart_gif(
                        instance, gif_path=path4, plot_function=pattern_plotter(calls, offset=off), schedule_history=part, fps=10,
                        frames_dir=fdir3, remove_frames=False,
                    )
                    got4 = [decode(f) - off for f in imageio.mimread(path4, memtest=False)]
                    ctx.check(
                        got4 == list(range(1, len(part) + 1)),
                        "frame-order-kept-frames",
                        f"{tag} ({len(part)} operations, frames kept in a directory used before): decodes to {got4[:8]}...{got4[-4:]} (len {len(got4)})",
                    )
                # a second, short animation written to the same path
                del calls[:]
                create_gantt_chart_gif(
                    instance, gif_path=path, plot_function=plotter, schedule_history=history[:5], fps=10
                )
                again = [decode(f) for f in imageio.mimread(path, memtest=False)]
                ctx.check(
                    again == [1, 2, 3, 4, 5],
                    "frame-order-second-animation",
                    f"a 5-operation animation written to the path of an earlier {n}-operation one decodes to {again}",
                )
    finally:
        plt.close("all")
        shutil.rmtree(tmp, ignore_errors=True)
    ctx.label("anim=" + mode, "n>=100" if n >= 100 else "n<100")
    ctx.nontrivial = n >= 100


def check_case(case, ctx):
    ctx.label("kind=" + case["kind"])
    if case["kind"] == "chart":
        chart_case(case, ctx)
    else:
        anim_case(case, ctx)
