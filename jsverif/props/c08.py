"""C08 - pruning dominated operations never loses the optimum."""

from __future__ import annotations

from hypothesis import strategies as st

from job_shop_lib.dispatching import Dispatcher, filter_dominated_operations

from .. import gen
from .. import fingerprint as fp
from ..lib import build_instance, ref
from ..model import opt_makespan

ID = "C08"
RULE = (
    "Generated: instance with positive durations, flexible or not, 2-4 jobs, "
    "<=9 operations (quick) / <=11 (thorough), <=3 machines so that machines "
    "are shared. Oracle: OPT(I) = exact minimum over ALL dispatch histories "
    "computed on the independent model (memoised branch and bound); then the "
    "tree of Dispatcher(instance, filter_dominated_operations) (the function itself or a one-member composition of it)"
    ".available_operations() x eligible machines is searched on the REAL "
    "dispatcher (memoised, bounded by OPT) for a leaf with makespan == OPT: "
    "found = property holds for this instance (complete decision, since the "
    "filtered tree is a subtree of the full one), tree exhausted without one = "
    "violation; the search uses either a fresh dispatcher per node or ONE "
    "dispatcher that is reset and replayed for every node (how tree searches - half of the levels walk the very list object available_operations() handed out for the state while the sub-trees are explored - "
    "and RL loops use it; one case in six repeats the search with every decision going through SingleJobShopGraphEnv.step), optionally with the feature observers of an RL environment (is-ready, earliest start time, duration) attached to it; the same search is run with the default filter of the RL "
    "environments when that is not the dominated-operations filter itself. A "
    "template family and four fixed instances whose optimum no non-delay "
    "schedule attains are mixed in. Non-trivial: the filter removed an operation in at least one "
    "visited state AND the instance has a complete history worse than OPT "
    "(so an optimum can be lost). Labels report how many instances have an "
    "optimum that no non-delay schedule attains."
)
BUDGET = {"quick": 1500, "thorough": 8000}
ASSUMPTIONS = [
    "an optimal schedule exists among dispatch histories (semi-active schedules), so the model's exhaustive minimum is the true optimum",
]


@st.composite
def _instances(draw, cap):
    """Shapes on which dominance pruning matters: 2-4 jobs of 2-4 operations
    sharing 2-3 machines, durations with a wide spread."""
    n_m = draw(st.integers(2, 3))
    n_j = draw(st.integers(2, 4))
    flex = draw(st.integers(0, 3)) == 0
    dur = st.one_of(st.integers(1, 3), st.integers(1, 9))
    durations, machines = [], []
    budget = cap
    for j in range(n_j):
        rest = n_j - j - 1
        hi = max(1, min(4, budget - 2 * rest))
        ln = draw(st.integers(min(2, hi), hi))
        budget -= ln
        durations.append([draw(dur) for _ in range(ln)])
        row = []
        for _ in range(ln):
            if flex and draw(st.booleans()):
                row.append(
                    draw(st.lists(st.integers(0, n_m - 1), min_size=1, max_size=n_m, unique=True))
                )
            else:
                row.append([draw(st.integers(0, n_m - 1))])
        machines.append(row)
    return {
        "durations": durations,
        "machines": machines,
        "name": "I",
        "meta": {},
        "ints": True,
        "family": "c08",
    }


@st.composite
def _delay_template(draw):
    """Family built to contain instances whose optimum no non-delay schedule
    attains (random generation hits such instances about once in 20 000):
    two jobs start on the same machine, each followed by a long tail, and a
    third job occupies a machine one of the tails needs first."""
    perm = draw(st.permutations([0, 1, 2, 3, 4]))
    small = st.integers(1, 3)
    long_ = st.sampled_from([20, 50, 198, 200])
    mid = st.sampled_from([5, 20, 50])
    durations = [
        [draw(small), draw(long_)],
        [draw(small), draw(small), draw(long_)],
        [draw(mid)],
    ]
    machines = [
        [[perm[0]], [perm[4]]],
        [[perm[0]], [perm[2]], [perm[3]]],
        [[perm[2]]],
    ]
    order = draw(st.permutations([0, 1, 2]))
    return {
        "durations": [durations[i] for i in order],
        "machines": [machines[i] for i in order],
        "name": "I",
        "meta": {},
        "ints": True,
        "family": "delay_template",
    }


NEEDS_DELAY = [
    ([[2, 200], [1, 1, 198], [50]], [[[0], [4]], [[0], [2], [3]], [[2]]]),
    ([[1, 50], [1, 2, 3], [50]], [[[0], [1]], [[0], [2], [1]], [[2]]]),
    ([[1, 1, 200], [1, 2], [3]], [[[2], [1], [0]], [[2], [0]], [[1]]]),
    ([[200], [3, 50, 200], [1, 200]], [[[0]], [[2], [0], [1]], [[2], [1]]]),
]


def fixed_cases(tier):
    return [
        {
            "inst": {
                "durations": d,
                "machines": m,
                "name": "I",
                "meta": {},
                "ints": True,
                "family": "needs_delay",
            }
        }
        for d, m in NEEDS_DELAY
    ] + [
        {
            "inst": {
                "durations": d,
                "machines": m,
                "name": "I",
                "meta": {},
                "ints": True,
                "family": "needs_delay",
            },
            "as_composite": 1 + k % 2,
            "reuse": bool(k % 2),
        }
        for k, (d, m) in enumerate(NEEDS_DELAY)
    ]


def strategy(tier):
    big = tier == "thorough"
    general = gen.instances(
        min_jobs=2,
        max_jobs=4,
        max_ops=4,
        max_machines=3,
        max_total=11 if big else 9,
        zero_ok=False,
        big_ok=True,
    )
    inst = gen.weighted((3, _instances(11 if big else 9)), (1, general), (1, _delay_template()))
    return st.fixed_dictionaries(
        {"inst": inst, "reuse": st.booleans(), "observed": gen.pick([False, True, False, False, False, False]), "as_composite": gen.pick([0, 1, 0, 2]), "via_env": gen.pick([False, False, True, False, False, False])}
    )


def _nondelay_best(inst, bound):
    """Best makespan over non-delay schedules (model only; for labelling)."""
    best = [float("inf")]
    seen = set()

    def rec(prefix):
        m = ref(inst)
        for j, x in prefix:
            m.apply(j, x)
        if m.complete():
            best[0] = min(best[0], m.makespan())
            return
        key = (tuple(m.next), tuple(m.job_free(j) for j in range(m.n_jobs)),
               tuple(m.machine_free(x) for x in range(m.n_machines)))
        if key in seen or m.makespan() >= best[0]:
            return
        seen.add(key)
        ops = m.ready()
        t = m.min_start(ops)
        for j, p in ops:
            for x in inst["machines"][j][p]:
                if m.start(j, x) == t:
                    rec(prefix + [(j, x)])
                    if best[0] <= bound:
                        return

    rec([])
    return best[0]


def default_env_filters(instance):
    """The ready-operations filters the two RL environments use when the
    caller does not pass one (the property's anchors name them as users of
    the dominated-operations filter)."""
    import inspect

    from job_shop_lib.dispatching import DispatcherObserverConfig
    from job_shop_lib.dispatching.feature_observers import FeatureObserverType
    from job_shop_lib.graphs import build_disjunctive_graph
    from job_shop_lib.reinforcement_learning import (
        MultiJobShopGraphEnv,
        SingleJobShopGraphEnv,
    )

    env = SingleJobShopGraphEnv(
        build_disjunctive_graph(instance),
        [DispatcherObserverConfig(FeatureObserverType.IS_READY)],
    )
    multi = inspect.signature(MultiJobShopGraphEnv.__init__).parameters[
        "ready_operations_filter"
    ].default
    return [
        ("SingleJobShopGraphEnv default", env.dispatcher.ready_operations_filter),
        ("MultiJobShopGraphEnv default", multi),
    ]


def _observe(d):
    """The feature observers an RL environment typically puts on its
    dispatcher (they read the state the filter reads)."""
    from job_shop_lib.dispatching.feature_observers import (
        DurationObserver,
        EarliestStartTimeObserver,
        IsReadyObserver,
    )

    IsReadyObserver(d)
    EarliestStartTimeObserver(d)
    DurationObserver(d)
    return d


def search(ctx, inst, instance, opt, filt, stats, reuse=False, observed=False, env=None):
    """True iff some history over Dispatcher(instance, filt)
    .available_operations() reaches makespan == opt."""
    n_jobs = len(inst["durations"])
    tails = [
        [sum(row[p:]) for p in range(len(row) + 1)] for row in inst["durations"]
    ]
    seen = set()
    shared = Dispatcher(instance, filt) if reuse else None
    if shared is not None and observed:
        _observe(shared)

    def rec(prefix):
        if env is not None:
            # the decisions go through SingleJobShopGraphEnv.step (its default
            # filter is the dominated-operations filter)
            env.reset()
            d = env.dispatcher
        elif reuse:
            # the way a tree search or an RL loop uses the library: one
            # dispatcher, reset and replayed for every node
            d = shared
            d.reset()
        else:
            d = Dispatcher(instance, filt)
            if observed:
                _observe(d)
        m = ref(inst)
        for j, x in prefix:
            if env is not None:
                env.step((j, x))
            else:
                d.dispatch(instance.jobs[j][m.next[j]], x)
            m.apply(j, x)
        stats["nodes"] += 1
        if m.complete():
            mk = d.schedule.makespan()
            stats["best"] = min(stats["best"], mk)
            return mk == opt
        jf = tuple(m.job_free(j) for j in range(n_jobs))
        key = (tuple(m.next), jf, tuple(m.machine_free(x) for x in range(m.n_machines)))
        if key in seen:
            return False
        seen.add(key)
        lb = max([m.makespan()] + [jf[j] + tails[j][m.next[j]] for j in range(n_jobs)])
        if lb > opt:
            return False
        held = d.available_operations()
        avail = [fp.jp(o) for o in held]
        ready = m.ready()
        ctx.check(
            all(a in ready for a in avail),
            "foreign-operation",
            f"history {prefix}: available {avail} not within ready {ready}",
        )
        if len(avail) < len(ready):
            stats["pruned_states"] += 1
        children = []
        for j, p in avail:
            for x in inst["machines"][j][p]:
                children.append((m.start(j, x) + inst["durations"][j][p], j, x))
        children.sort()
        hit = False
        if reuse and env is None and len(prefix) % 2 == 0:
            # a depth-first search written the plain way: it keeps the list
            # the dispatcher handed out for this state and walks it while the
            # (shared) dispatcher is reset and replayed for the sub-trees
            idx = 0
            while idx < len(held):
                op = held[idx]
                idx += 1
                for x in op.machines:
                    if rec(prefix + [(op.job_id, x)]):
                        hit = True
            return hit
        for _e, j, x in children:
            if rec(prefix + [(j, x)]):
                hit = True
                if not reuse:
                    return True  # complete decision for this instance
        # with a reused dispatcher the whole (bounded) tree is walked, so
        # that state carried over between histories can show
        return hit

    return rec([])


def check_case(case, ctx):
    inst = case["inst"]
    opt = opt_makespan(inst["durations"], inst["machines"])
    instance = build_instance(inst)
    stats = {"nodes": 0, "pruned_states": 0, "best": float("inf")}
    reuse = bool(case.get("reuse"))
    observed = bool(case.get("observed"))
    main_filter = filter_dominated_operations
    if case.get("as_composite"):
        # the same filter obtained as a one-member composition, by name
        from job_shop_lib.dispatching import create_composite_operation_filter
        from job_shop_lib.dispatching.rules import DispatchingRuleSolver

        # (a solver with default settings - which holds another composition -
        # exists in the same process)
        DispatchingRuleSolver()
        main_filter = create_composite_operation_filter(
            ["dominated_operations"] if case["as_composite"] == 1 else [filter_dominated_operations]
        )
        ctx.label("one_member_composition")
    found = search(ctx, inst, instance, opt, main_filter, stats, reuse, observed)
    if reuse:
        ctx.label("reused_dispatcher")
    if observed:
        ctx.label("feature_observers_attached")
    ctx.check(
        stats["best"] >= opt,
        "model-opt-wrong",
        f"filtered tree reached makespan {stats['best']} below the model's optimum {opt}",
    )
    ctx.check(
        found,
        "optimum-lost",
        f"OPT={opt} but no filtered dispatch history reaches it "
        f"(best filtered leaf {stats['best']}, {stats['nodes']} nodes explored)",
        opt=opt,
    )
    if case.get("via_env") and gen.num_ops(inst) <= 9:  # (every node resets the environment: costly)
        from job_shop_lib.dispatching import DispatcherObserverConfig
        from job_shop_lib.dispatching.feature_observers import FeatureObserverType
        from job_shop_lib.graphs import build_disjunctive_graph
        from job_shop_lib.reinforcement_learning import SingleJobShopGraphEnv

        inst_env = build_instance(inst)
        env = SingleJobShopGraphEnv(
            build_disjunctive_graph(inst_env), [DispatcherObserverConfig(FeatureObserverType.IS_READY)]
        )
        if env.dispatcher.ready_operations_filter is filter_dominated_operations:
            st3 = {"nodes": 0, "pruned_states": 0, "best": float("inf")}
            ctx.check(
                search(ctx, inst, inst_env, opt, None, st3, env=env),
                "optimum-lost-through-env",
                f"OPT={opt} but no sequence of SingleJobShopGraphEnv.step decisions among the filtered available "
                f"operations reaches it (best episode {st3['best']}, {st3['nodes']} nodes)",
            )
            ctx.label("searched_through_env")
    for name, filt in default_env_filters(instance):
        if filt is filter_dominated_operations:
            ctx.count("env_default_is_dominated_filter")
            continue
        st2 = {"nodes": 0, "pruned_states": 0, "best": float("inf")}
        ctx.check(
            search(ctx, inst, build_instance(inst), opt, filt, st2),
            "optimum-lost-env-default",
            f"{name} filter: OPT={opt} not reachable (best leaf {st2['best']})",
        )
    # is there a history worse than OPT?  (first-ready / last-ready greedy runs)
    worse = False
    for pick in (0, -1):
        m = ref(inst)
        while not m.complete():
            j, p = m.ready()[pick]
            m.apply(j, inst["machines"][j][p][pick])
        worse |= m.makespan() > opt
    nd = _nondelay_best(inst, opt)
    ctx.count("nodes", stats["nodes"])
    ctx.label(*gen.inst_labels(inst))
    if nd > opt:
        ctx.label("optimum_needs_delay")
    if stats["pruned_states"]:
        ctx.label("filter_pruned")
    ctx.nontrivial = stats["pruned_states"] > 0 and worse
