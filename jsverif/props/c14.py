"""C14 - instances and schedules survive serialisation; views match; nothing
modifies the instance."""

from __future__ import annotations

import json
import math
import os
import signal
import tempfile

import numpy as np
from hypothesis import strategies as st

from job_shop_lib import JobShopInstance, Schedule
from job_shop_lib.constraint_programming import ORToolsSolver
from job_shop_lib.dispatching import (
    Dispatcher,
    DispatcherObserverConfig,
    HistoryObserver,
    UnscheduledOperationsObserver,
)
from job_shop_lib.dispatching.feature_observers import CompositeFeatureObserver
from job_shop_lib.dispatching.rules import DispatchingRuleSolver
from job_shop_lib.exceptions import ValidationError
from job_shop_lib.graphs import build_solved_disjunctive_graph
from job_shop_lib.graphs.graph_updaters import ResidualGraphUpdater
from job_shop_lib.reinforcement_learning import (
    IdleTimeReward,
    MakespanReward,
    SingleJobShopGraphEnv,
)

from .. import feasible, gen, obs
from .. import fingerprint as fp
from ..lib import build_filter, build_instance, ref

ID = "C14"
RULE = (
    "Generated, kind 'instance': instance of any shape (flexible for the "
    "dictionary path, non-flexible for Taillard text; generated name and "
    "metadata) - every derived view is compared with its definition computed "
    "from the generating matrices; from_matrices(**to_dict()) directly and "
    "through JSON, and from_taillard_file on text the check writes, must "
    "reproduce operations, name and metadata (names may hold dots and blanks; the "
    "rebuilt instance must itself convert to the same JSON text); then a tour of consumers "
    "(dispatcher with all feature observers, composite, history, unscheduled, "
    "rewards, residual updater and a filter over a history with a reset; all "
    "dispatching-rule solvers; CP-SAT; 4 graph builders; solved graph; an "
    "environment episode) after which the instance's operations, their "
    "identity, name, metadata and EVERY view must be unchanged. Kind "
    "'schedule': non-flexible instance x dispatcher-built schedule S (the sequences / dictionary handed to the library are used for a second rebuild and must be left unchanged): "
    "from_job_sequences(I, seq(S)) and from_dict(**S.to_dict()) (also via "
    "JSON) reproduce S; per-machine job sequences obtained from seq(S) by "
    "swaps or by uniformly random permutation are accepted exactly when the "
    "independent precedence graph is acyclic, the result then being feasible, "
    "complete and realising exactly those sequences; otherwise "
    "ValidationError; seq(S) with one entry dropped (an operation left out) must be refused with ValidationError; each call runs under a 20 s alarm. Kind 'benchmark': "
    "load_benchmark_instance / load_all_benchmark_instances against the JSON "
    "file read independently (5 fixed names + generated ones). Kind 'generated': "
    "an instance made by GeneralInstanceGenerator (generated parameters, name "
    "suffix with dots / blanks): views against its operations, dictionary / JSON "
    "/ Taillard conversions reproduce operations, name and metadata, and the "
    "rebuilt instance converts to the same JSON text. Non-trivial: "
    "instance irregular, flexible or with recirculation; sequences case with a "
    "cyclic input or an accepted input different from seq(S)."
)
BUDGET = {"quick": 1200, "thorough": 8000}
ASSUMPTIONS = [
    "Taillard text written by the check: header line, one line per job of 'machine duration' pairs, optional # comment lines, optionally leading / trailing blanks on comment and job lines (the reader strips lines), single trailing newline",
    "'never a hang' is decided by a 20 s alarm around calls that normally take < 5 ms",
]


_SUFFIX = st.text(alphabet="abX01_-. ", min_size=0, max_size=6)


def strategy(tier):
    big = tier == "thorough"
    inst = gen.instances(
        max_jobs=5, max_ops=5, max_machines=5, max_total=20 if big else 14, with_text=True, big_ok=True
    )
    nonflex = gen.instances(
        max_jobs=5, max_ops=5, max_machines=4, max_total=20 if big else 14, flexible=False, with_text=True
    )
    k_inst = st.fixed_dictionaries(
        {
            "kind": st.just("instance"),
            "inst": inst,
            "history": gen.histories(max_len=20),
            "filters": gen.filter_configs(max_len=2),
            "tour": st.integers(0, 255),
            "comments": st.booleans(),
            "explicit_name": st.booleans(),
        }
    )
    k_sched = st.fixed_dictionaries(
        {
            "kind": st.just("schedule"),
            "inst": nonflex,
            "history": gen.histories(max_len=20),
            "swaps": st.lists(st.tuples(st.integers(0, 9), st.integers(0, 9), st.integers(0, 9)).map(list), max_size=3),
            "shuffle": gen.weighted((1, st.none()), (3, st.lists(st.integers(0, 50), min_size=1, max_size=20))),
            "meta": st.dictionaries(st.sampled_from(["a", "b"]), st.integers(0, 5), max_size=2),
        }
    )
    k_bench = st.fixed_dictionaries(
        {"kind": st.just("benchmark"), "name": st.integers(0, 10**6)}
    )
    k_gen = st.fixed_dictionaries(
        {
            "kind": st.just("generated"),
            "jobs": st.tuples(st.integers(1, 4), st.integers(0, 2)).map(list),
            "machines": st.tuples(st.integers(1, 4), st.integers(0, 2)).map(list),
            "durations": st.tuples(st.integers(0, 9), st.integers(0, 9)).map(list),
            "less": st.booleans(),
            "recirc": st.booleans(),
            "mpo": st.tuples(st.integers(1, 3), st.integers(0, 2)).map(list),
            "suffix": _SUFFIX,
            "seed": st.integers(0, 10**6),
            "skip": st.integers(0, 3),
        }
    )
    return gen.weighted((8, k_inst), (8, k_sched), (1, k_bench), (2, k_gen))


def fixed_cases(tier):
    return [{"kind": "benchmark", "name": n} for n in ("ft06", "la01", "abz5", "orb07", "ta01")]


# ------------------------------------------------------------------ views


def nan_eq(a, b):
    return a.shape == b.shape and np.array_equal(a, b, equal_nan=True)


def check_views(ctx, inst, instance, where):
    d, m = inst["durations"], inst["machines"]
    flat = [(j, p) for j in range(len(d)) for p in range(len(d[j]))]
    n_m = 1 + max(x for row in m for ms in row for x in ms)
    flexible = any(len(ms) > 1 for row in m for ms in row)

    def expect(name, got, want):
        ok = got == want
        if isinstance(ok, np.ndarray):
            ok = bool(ok.all())
        ctx.check(ok, "view:" + name, f"{where}: {name} = {got!r}, definition gives {want!r}")

    ids = [
        (o.job_id, o.position_in_job, o.operation_id, list(o.machines), o.duration)
        for job in instance.jobs
        for o in job
    ]
    expect(
        "operation attributes",
        ids,
        [(j, p, k, list(m[j][p]), d[j][p]) for k, (j, p) in enumerate(flat)],
    )
    expect("num_jobs", instance.num_jobs, len(d))
    expect("num_machines", instance.num_machines, n_m)
    expect("num_operations", instance.num_operations, len(flat))
    expect("is_flexible", instance.is_flexible, flexible)
    expect("durations_matrix", instance.durations_matrix, d)
    want_mm = [[list(ms) for ms in row] for row in m] if flexible else [[ms[0] for ms in row] for row in m]
    expect("machines_matrix", instance.machines_matrix, want_mm)
    maxlen = max(len(r) for r in d)
    want = np.full((len(d), maxlen), np.nan, dtype=np.float32)
    for j, r in enumerate(d):
        want[j, : len(r)] = r
    got = instance.durations_matrix_array
    ctx.check(
        got.dtype == np.float32 and nan_eq(got, want),
        "view:durations_matrix_array",
        f"{where}: durations_matrix_array =\n{got}\nexpected\n{want}",
    )
    got = instance.machines_matrix_array
    if flexible:
        width = max(len(ms) for row in m for ms in row)
        want = np.full((len(d), maxlen, width), np.nan, dtype=np.float32)
        for j, row in enumerate(m):
            for p, ms in enumerate(row):
                want[j, p, : len(ms)] = ms
    else:
        want = np.full((len(d), maxlen), np.nan, dtype=np.float32)
        for j, row in enumerate(m):
            want[j, : len(row)] = [ms[0] for ms in row]
    ctx.check(
        got.dtype == np.float32 and nan_eq(got, want),
        "view:machines_matrix_array",
        f"{where}: machines_matrix_array =\n{got}\nexpected\n{want}",
    )
    obm = [[(o.job_id, o.position_in_job) for o in lst] for lst in instance.operations_by_machine]
    expect(
        "operations_by_machine",
        obm,
        [[(j, p) for (j, p) in flat if x in m[j][p]] for x in range(n_m)],
    )
    expect("max_duration", instance.max_duration, max(x for r in d for x in r))
    expect("max_duration_per_job", list(instance.max_duration_per_job), [max(r) for r in d])
    expect(
        "max_duration_per_machine",
        list(instance.max_duration_per_machine),
        [max([d[j][p] for (j, p) in flat if x in m[j][p]], default=0) for x in range(n_m)],
    )
    expect("job_durations", list(instance.job_durations), [sum(r) for r in d])
    expect(
        "machine_loads",
        list(instance.machine_loads),
        [sum(d[j][p] for (j, p) in flat if x in m[j][p]) for x in range(n_m)],
    )
    expect("total_duration", instance.total_duration, sum(sum(r) for r in d))
    expect("name", instance.name, inst["name"])
    expect("metadata", dict(instance.metadata), dict(inst["meta"]))


def same_content(ctx, clause, a, b, what):
    fa = [[(o.job_id, o.position_in_job, o.operation_id, list(o.machines), o.duration) for o in job] for job in a.jobs]
    fb = [[(o.job_id, o.position_in_job, o.operation_id, list(o.machines), o.duration) for o in job] for job in b.jobs]
    ctx.check(fa == fb, clause, f"{what}: operations {fb} != original {fa}")
    ctx.check(a.name == b.name, clause, f"{what}: name {b.name!r} != {a.name!r}")
    ctx.check(dict(a.metadata) == dict(b.metadata), clause, f"{what}: metadata {b.metadata!r} != {a.metadata!r}")


def json_stable(ctx, clause, original, rebuilt, what):
    """A rebuilt instance converts to the same JSON text as the original."""
    try:
        text = json.dumps(rebuilt.to_dict(), sort_keys=True)
    except (TypeError, ValueError) as e:
        ctx.fail(clause, f"{what}: to_dict() of the rebuilt instance is not JSON-serialisable ({e})")
    want = json.dumps(original.to_dict(), sort_keys=True)
    ctx.check(text == want, clause, f"{what}: JSON of the rebuilt instance {text} != JSON of the original {want}")
    same_content(ctx, clause, original, JobShopInstance.from_matrices(**json.loads(text)), what + ", once more through JSON")


def taillard_text(inst, comments, indent=False):
    d, m = inst["durations"], inst["machines"]
    n_m = 1 + max(x for row in m for ms in row for x in ms)
    pad = "  " if indent else ""
    lines = []
    if comments:
        lines.append(pad + "# generated by the C14 check")
    lines.append(f"{len(d)} {n_m}")
    for j, row in enumerate(d):
        if comments and j == 1:
            lines.append(pad + "#   a comment between jobs")
        lines.append(pad + " ".join(f"{m[j][p][0]} {row[p]}" for p in range(len(row))) + ("  " if indent else ""))
    return "\n".join(lines) + "\n"


class Alarm(Exception):
    pass


def with_alarm(seconds, fn):
    def handler(_sig, _frm):
        raise Alarm()

    old = signal.signal(signal.SIGALRM, handler)
    signal.alarm(seconds)
    try:
        return fn()
    finally:
        signal.alarm(0)
        signal.signal(signal.SIGALRM, old)


# ------------------------------------------------------------------ tour


def identity_fp(instance):
    return (
        id(instance.jobs),
        tuple(id(job) for job in instance.jobs),
        tuple(id(o) for job in instance.jobs for o in job),
        tuple(id(o.machines) for job in instance.jobs for o in job),
        fp.instance(instance),
    )


def tour(ctx, case, inst, instance):
    bits = case["tour"]
    flexible = any(len(ms) > 1 for row in inst["machines"] for ms in row)
    history = case["history"]
    # dispatcher with everything attached
    d = Dispatcher(instance, build_filter(case["filters"]))
    observers = [obs.make_feature_observer(d, [k, None, i % 3]) for i, k in enumerate(obs.KINDS)]
    CompositeFeatureObserver(d, feature_observers=observers)
    HistoryObserver(d)
    UnscheduledOperationsObserver(d)
    MakespanReward(d)
    IdleTimeReward(d)
    builder = sorted(obs.BUILDERS)[bits % 4]
    ResidualGraphUpdater(d, obs.BUILDERS[builder](instance))
    model = ref(inst)
    for rounds in range(2):
        k = 0
        while not model.complete() and (rounds == 1 or k < 3 + bits % 5):
            a, b = history[k] if k < len(history) else (0, 0)
            k += 1
            ready = model.ready()
            j, p = ready[a % len(ready)]
            ms = inst["machines"][j][p]
            mm = ms[b % len(ms)]
            d.dispatch(instance.jobs[j][p], mm)
            model.apply(j, mm)
            obs.dispatcher_snapshot(d)
        if rounds == 0:
            d.reset()
            model = ref(inst)
    if bits & 4:
        for rule in ("shortest_processing_time", "first_come_first_served", "most_work_remaining", "most_operations_remaining", "random"):
            DispatchingRuleSolver(rule, "random" if bits & 8 else "first")(instance)
    if bits & 16 and not flexible and gen.num_ops(inst) <= 12:
        ORToolsSolver()(instance)
    if bits & 32:
        for name in sorted(obs.BUILDERS):
            obs.BUILDERS[name](instance)
        build_solved_disjunctive_graph(d.schedule)
    if bits & 64:
        env = SingleJobShopGraphEnv(
            obs.BUILDERS[builder](instance),
            [DispatcherObserverConfig(obs.observer_type(k, 0)) for k in obs.KINDS],
        )
        env.reset()
        done = False
        while not done:
            op = env.dispatcher.available_operations()[0]
            _o, _r, done, _t, _i = env.step((op.job_id, op.machines[0]))
        env.reset()
    instance.to_dict()


def instance_case(case, ctx):
    inst = case["inst"]
    if case["tour"] & 64 and not any(len(ms) > 1 for row in inst["machines"] for ms in row):
        # a job whose line in Taillard text reads exactly like the size line:
        # one operation on machine J lasting M time units (J jobs, M machines)
        inst = dict(inst)
        n_jobs = len(inst["durations"]) + 1
        n_mach = max(1 + max(x for row in inst["machines"] for ms in row for x in ms), n_jobs + 1)
        inst["durations"] = [list(r) for r in inst["durations"]] + [[n_mach]]
        inst["machines"] = [list(r) for r in inst["machines"]] + [[[n_jobs]]]
        ctx.label("job_line_equals_size_line")
    instance = build_instance(inst)
    check_views(ctx, inst, instance, "fresh instance")
    flexible = any(len(ms) > 1 for row in inst["machines"] for ms in row)
    # dictionary round trip
    dct = instance.to_dict()
    ctx.check(
        set(dct) == {"name", "duration_matrix", "machines_matrix", "metadata"},
        "to_dict-keys",
        f"to_dict keys {sorted(dct)}",
    )
    same_content(ctx, "roundtrip:dict", instance, JobShopInstance.from_matrices(**dct), "from_matrices(**to_dict())")
    # from_matrices given matrices in a spelling other than the normalised
    # one (single machines as one-element lists / a mix of ints and lists)
    for variant in (0, 1):
        spelled = [
            [ms[0] if (len(ms) == 1 and (variant == 1 and (j + p) % 2 == 0)) else list(ms) for p, ms in enumerate(row)]
            for j, row in enumerate(inst["machines"])
        ]
        built = JobShopInstance.from_matrices(
            [list(r) for r in inst["durations"]], spelled, name=inst["name"], metadata=dict(inst["meta"])
        )
        check_views(ctx, inst, built, f"from_matrices(machines spelled as {spelled})")
    via_json = json.loads(json.dumps(dct))
    # the caller edits the dictionary it was given to derive a variant; a
    # later conversion of the (unchanged) instance is not affected
    dct["name"] = "variant-of-" + str(dct["name"])
    dct["metadata"] = {"edited": True}
    dct["duration_matrix"] = [[x + 1 for x in row] for row in dct["duration_matrix"]]
    same_content(ctx, "to_dict-not-fresh", instance, JobShopInstance.from_matrices(**instance.to_dict()), "second to_dict() after the first result was edited")
    from_json = JobShopInstance.from_matrices(**via_json)
    same_content(ctx, "roundtrip:json", instance, from_json, "from_matrices(**json(to_dict()))")
    json_stable(ctx, "roundtrip:json", instance, from_json, "from_matrices(**json(to_dict()))")
    ctx.check(
        instance.name == inst["name"] and dict(instance.metadata) == inst["meta"],
        "name-metadata",
        f"instance built with name {inst['name']!r} and metadata {inst['meta']!r} reports name {instance.name!r} and metadata {instance.metadata!r}",
    )
    if not flexible:
        with tempfile.TemporaryDirectory(prefix="c14_") as tmp:
            name = inst["name"]
            safe = name != "" and all(c.isalnum() or c in "_-" for c in name)
            if safe and not case["explicit_name"]:
                path = os.path.join(tmp, name + ".txt")
                kwargs = {}
            else:
                path = os.path.join(tmp, "instance.txt")
                kwargs = {"name": name}
            with open(path, "w", encoding="utf-8") as f:
                f.write(taillard_text(inst, case["comments"], indent=bool(case["tour"] & 128)))
            back = JobShopInstance.from_taillard_file(path, **kwargs, **inst["meta"])
        same_content(ctx, "roundtrip:taillard", instance, back, "from_taillard_file(text written from the instance)")
        json_stable(ctx, "roundtrip:taillard", instance, back, "from_taillard_file(text written from the instance)")
        ctx.count("taillard_roundtrips")
    before = identity_fp(instance)
    tour(ctx, case, inst, instance)
    after = identity_fp(instance)
    ctx.check(
        before == after,
        "instance-modified",
        f"the instance was modified by a consumer: {obs.diff_snapshots(before, after)}",
    )
    check_views(ctx, inst, instance, "after the tour of consumers")
    labels = gen.inst_labels(inst)
    ctx.label(*labels)
    ctx.nontrivial = any(x in labels for x in ("irregular", "flexible", "recirculation"))


# ------------------------------------------------------------------ schedules


def acyclic(inst, seqs):
    """Independent precedence graph of per-machine job sequences."""
    d, m = inst["durations"], inst["machines"]
    on_machine = {}
    for j, row in enumerate(m):
        for p, ms in enumerate(row):
            on_machine.setdefault((j, ms[0]), []).append(p)
    succ = {}
    indeg = {}
    nodes = [(j, p) for j in range(len(d)) for p in range(len(d[j]))]
    for nd in nodes:
        succ[nd] = []
        indeg[nd] = 0

    def edge(a, b):
        succ[a].append(b)
        indeg[b] += 1

    for j, row in enumerate(d):
        for p in range(1, len(row)):
            edge((j, p - 1), (j, p))
    for x, seq in enumerate(seqs):
        count = {}
        prev = None
        for j in seq:
            k = count.get(j, 0)
            count[j] = k + 1
            cur = (j, on_machine[(j, x)][k])
            if prev is not None:
                edge(prev, cur)
            prev = cur
    stack = [nd for nd in nodes if indeg[nd] == 0]
    seen = 0
    while stack:
        nd = stack.pop()
        seen += 1
        for s in succ[nd]:
            indeg[s] -= 1
            if indeg[s] == 0:
                stack.append(s)
    return seen == len(nodes)


def schedule_case(case, ctx):
    inst = case["inst"]
    instance = build_instance(inst)
    d = Dispatcher(instance)
    model = ref(inst)
    k = 0
    history = case["history"]
    while not model.complete():
        a, b = history[k] if k < len(history) else (0, 0)
        k += 1
        ready = model.ready()
        j, p = ready[a % len(ready)]
        mm = inst["machines"][j][p][0]
        d.dispatch(instance.jobs[j][p], mm)
        model.apply(j, mm)
    sched = d.schedule
    sched.metadata = dict(case["meta"])
    original = fp.schedule(sched)
    seqs = [[s.job_id for s in lst] for lst in sched.schedule]
    dct = sched.to_dict()
    ctx.check(dct["job_sequences"] == seqs, "to_dict-sequences", f"to_dict job_sequences {dct['job_sequences']} != {seqs}")
    given = [list(s) for s in seqs]
    rebuilt = with_alarm(20, lambda: Schedule.from_job_sequences(instance, given))
    ctx.check(fp.schedule(rebuilt) == original, "roundtrip:job_sequences", "from_job_sequences(I, seq(S)) differs from S")
    ctx.check(given == seqs, "input-modified", f"from_job_sequences changed the job sequences it was given: {given}, were {seqs}")
    # the same sequences object / dictionary is used for a second rebuild
    rebuilt2 = with_alarm(20, lambda: Schedule.from_job_sequences(instance, given))
    ctx.check(fp.schedule(rebuilt2) == original, "roundtrip:job_sequences", "a second from_job_sequences(I, seq(S)) with the same list object differs from S")
    as_tuples = tuple(tuple(s) for s in seqs)
    if len(history) % 2:
        rebuilt3 = with_alarm(20, lambda: Schedule.from_job_sequences(instance, [list(s) for s in as_tuples]))
        ctx.check(fp.schedule(rebuilt3) == original, "roundtrip:job_sequences", "third rebuild differs from S")
    dct_before = json.dumps(dct, sort_keys=True)
    for name, blob in (("dict", dct), ("dict-again", dct), ("json", json.loads(json.dumps(dct)))):
        back = with_alarm(20, lambda b=blob: Schedule.from_dict(**b))
        ctx.check(
            fp.schedule(back) == original,
            "roundtrip:schedule-" + name,
            f"from_dict(to_dict(S)) via {name} differs from S",
        )
        ctx.check(
            dict(back.metadata) == dict(case["meta"]),
            "roundtrip:schedule-metadata",
            f"metadata {back.metadata!r} != {case['meta']!r} via {name}",
        )
        same_content(ctx, "roundtrip:schedule-instance", instance, back.instance, f"instance inside from_dict via {name}")
    ctx.check(
        json.dumps(dct, sort_keys=True) == dct_before,
        "input-modified",
        f"Schedule.from_dict changed the dictionary it was given: {json.dumps(dct, sort_keys=True)}, was {dct_before}",
    )
    # acceptance of other sequences
    perm = [list(s) for s in seqs]
    if case["shuffle"] is not None:
        src = case["shuffle"]
        i = 0
        for s in perm:
            # Fisher-Yates driven by the generated integers
            for t in range(len(s) - 1, 0, -1):
                r = src[i % len(src)] % (t + 1)
                i += 1
                s[t], s[r] = s[r], s[t]
    for x, a, b in case["swaps"]:
        s = perm[x % len(perm)]
        if len(s) >= 2:
            a, b = a % len(s), b % len(s)
            s[a], s[b] = s[b], s[a]
    ok = acyclic(inst, perm)
    try:
        res = with_alarm(20, lambda: Schedule.from_job_sequences(instance, [list(s) for s in perm]))
    except ValidationError:
        ctx.check(
            not ok,
            "rejected-schedulable-sequences",
            f"job sequences {perm} admit a schedule (precedence graph acyclic) but were rejected",
        )
        ctx.count("sequences_rejected")
    except Alarm:
        ctx.fail("hang", f"from_job_sequences did not return within 20 s for {perm}")
    else:
        ctx.check(
            ok,
            "accepted-cyclic-sequences",
            f"job sequences {perm} admit no schedule (cyclic precedence) but a schedule was returned",
        )
        rows = fp.schedule_rows(res)
        probs = feasible.problems(inst["durations"], inst["machines"], rows, partial=False)
        ctx.check(not probs, "sequences-infeasible-result", f"{perm}: {probs[:3]}")
        ctx.check(res.is_complete(), "sequences-incomplete-result", f"{perm}: incomplete")
        got = [[s.job_id for s in lst] for lst in res.schedule]
        ctx.check(got == perm, "sequences-not-realised", f"asked for {perm}, schedule has {got}")
        ctx.count("sequences_accepted")
    # sequences that leave an operation out admit no schedule of the instance
    nonempty = [i for i, s in enumerate(seqs) if s]
    if nonempty:
        pick = case["swaps"][0][0] if case["swaps"] else 0
        short = [list(s) for s in seqs]
        short[nonempty[pick % len(nonempty)]].pop()
        try:
            res = with_alarm(20, lambda: Schedule.from_job_sequences(instance, [list(s) for s in short]))
        except ValidationError:
            ctx.count("truncated_sequences_rejected")
        except Alarm:
            ctx.fail("hang", f"from_job_sequences did not return within 20 s for {short}")
        else:
            ctx.fail(
                "accepted-truncated-sequences",
                f"job sequences {short} leave an operation out (complete ones: {seqs}) but a schedule was returned "
                f"(complete: {res.is_complete()})",
            )
    ctx.check(fp.schedule(sched) == original, "schedule-modified", "the original schedule changed")
    ctx.label(*gen.inst_labels(inst))
    ctx.label("sequences=" + ("cyclic" if not ok else "same" if perm == seqs else "other-acyclic"))
    ctx.nontrivial = (not ok) or perm != seqs


def benchmark_case(case, ctx):
    """Benchmark instances shipped with the library: the loader must give the
    instance described by benchmark_instances.json (read independently)."""
    from job_shop_lib.benchmarking import load_all_benchmark_instances, load_benchmark_instance

    repo = os.environ.get("JSL_REPO", "/repo")
    with open(os.path.join(repo, "job_shop_lib", "benchmarking", "benchmark_instances.json"), encoding="utf-8") as f:
        data = json.load(f)
    names = sorted(data)
    name = case["name"] if isinstance(case["name"], str) else names[case["name"] % len(names)]
    entry = data[name]
    inst = {
        "durations": [list(r) for r in entry["duration_matrix"]],
        "machines": [[[x] if isinstance(x, int) else list(x) for x in r] for r in entry["machines_matrix"]],
        "name": name,
        "meta": dict(entry["metadata"]),
    }
    instance = load_benchmark_instance(name)
    check_views(ctx, inst, instance, f"load_benchmark_instance({name!r})")
    again = load_benchmark_instance(name)
    ctx.check(again is not instance, "benchmark-shared-object", "load_benchmark_instance returns a shared object")
    same_content(ctx, "roundtrip:benchmark-dict", instance, JobShopInstance.from_matrices(**json.loads(json.dumps(instance.to_dict()))), "benchmark via JSON")
    before = identity_fp(instance)
    DispatchingRuleSolver("most_work_remaining")(instance)
    ctx.check(before == identity_fp(instance), "instance-modified", "benchmark instance modified by a solver")
    check_views(ctx, inst, instance, f"benchmark {name} after a solver run")
    allb = load_all_benchmark_instances()
    ctx.check(sorted(allb) == names, "benchmark-names", "load_all_benchmark_instances keys differ from the JSON file")
    same_content(ctx, "benchmark-all", instance, allb[name], f"load_all_benchmark_instances()[{name!r}]")
    ctx.label("benchmark")
    ctx.nontrivial = True


def generated_case(case, ctx):
    """Instances made by the library's own generator are instances like any
    other: views follow from their operations, and the dictionary / JSON /
    Taillard conversions reproduce operations, name and metadata."""
    from job_shop_lib.generation import GeneralInstanceGenerator

    mpo_lo = case["mpo"][0]
    n_m_lo = max(case["machines"][0], mpo_lo + case["mpo"][1])
    # parameters the generator is documented to accept: enough machines for
    # the eligible sets, and enough jobs when fewer jobs than machines are
    # not allowed
    jobs_lo = case["jobs"][0] if case["less"] else max(case["jobs"][0], n_m_lo)
    generator = GeneralInstanceGenerator(
        num_jobs=(jobs_lo, jobs_lo + case["jobs"][1]),
        num_machines=(n_m_lo, n_m_lo + case["machines"][1]),
        duration_range=(case["durations"][0], case["durations"][0] + case["durations"][1]),
        allow_less_jobs_than_machines=case["less"],
        allow_recirculation=case["recirc"],
        machines_per_operation=(mpo_lo, mpo_lo + case["mpo"][1]),
        name_suffix=case["suffix"],
        seed=case["seed"],
    )
    for _ in range(case["skip"]):
        generator.generate()
    instance = generator.generate()
    inst = {
        "durations": [[int(o.duration) for o in job] for job in instance.jobs],
        "machines": [[[int(x) for x in o.machines] for o in job] for job in instance.jobs],
        "name": instance.name,
        "meta": {},
    }
    check_views(ctx, inst, instance, "generated instance")
    dct = instance.to_dict()
    back = JobShopInstance.from_matrices(**dct)
    same_content(ctx, "roundtrip:dict", instance, back, "generated instance, from_matrices(**to_dict())")
    try:
        text = json.dumps(dct)
    except (TypeError, ValueError) as e:
        ctx.fail("roundtrip:json", f"to_dict() of a generated instance is not JSON-serialisable ({e})")
    from_json = JobShopInstance.from_matrices(**json.loads(text))
    same_content(ctx, "roundtrip:json", instance, from_json, "generated instance, from_matrices(**json(to_dict()))")
    json_stable(ctx, "roundtrip:json", instance, from_json, "generated instance, from_matrices(**json(to_dict()))")
    flexible = any(len(ms) > 1 for row in inst["machines"] for ms in row)
    if not flexible:
        with tempfile.TemporaryDirectory(prefix="c14_") as tmp:
            path = os.path.join(tmp, "instance.txt")
            with open(path, "w", encoding="utf-8") as f:
                f.write(taillard_text(inst, False))
            back = JobShopInstance.from_taillard_file(path, name=instance.name, **dict(instance.metadata))
        same_content(ctx, "roundtrip:taillard", instance, back, "generated instance, from_taillard_file(text written from it)")
        json_stable(ctx, "roundtrip:taillard", instance, back, "generated instance, from_taillard_file(text written from it)")
    ctx.label("generated", "flexible" if flexible else "non-flexible")
    ctx.nontrivial = len(inst["durations"]) >= 2


def check_case(case, ctx):
    ctx.label("kind=" + case["kind"])
    if case["kind"] == "generated":
        generated_case(case, ctx)
        return
    if case["kind"] == "benchmark":
        benchmark_case(case, ctx)
    elif case["kind"] == "instance":
        instance_case(case, ctx)
    else:
        schedule_case(case, ctx)
