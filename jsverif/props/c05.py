"""C05 - state queries agree with the schedule, whatever was asked before."""

from __future__ import annotations

from hypothesis import strategies as st

from job_shop_lib.dispatching import UnscheduledOperationsObserver
from job_shop_lib.exceptions import ValidationError

from .. import gen, obs
from .. import fingerprint as fp
from ..lib import Driver, ref

ID = "C05"
RULE = (
    "Generated: instance (all shapes) x optional filter composition x event "
    "list of dispatch / query / reset events (<=70 events; queries in "
    "generated order with repetitions, 20 query kinds with generated "
    "arguments). Oracle: every returned value is compared at once with an "
    "independent recomputation from (instance, dispatch history) - lists as "
    "sorted fingerprints so duplicates count, available_* as sets - plus the "
    "partition laws; the UnscheduledOperationsObserver (subscribed from the "
    "start, or attached anew in a generated later state) is compared too. "
    "Non-trivial: >=3 dispatches, a state with a non-empty ongoing set, and "
    "two list-valued queries observed in both relative orders within a state "
    "somewhere in the run."
)
BUDGET = {"quick": 700, "thorough": 8000}
ASSUMPTIONS = [
    "spec of each query is the one written in jsverif/props/c05.py from the docstrings and the property text",
    "is_ongoing is only asserted for operations whose end is after the current time (its docstring and its code disagree for completed operations; the property does not list it)",
    "earliest_start_time is asked only for ready operations (documented precondition)",
]

QUERIES = [
    "current_time",
    "available_operations",
    "raw_ready_operations",
    "unscheduled_operations",
    "scheduled_operations",
    "available_machines",
    "available_jobs",
    "completed_operations",
    "uncompleted_operations",
    "ongoing_operations",
    "earliest_start_time",
    "remaining_duration",
    "is_scheduled",
    "is_ongoing",
    "is_operation_ready",
    "next_operation",
    "start_time",
    "observer",
    "partition",
    "min_start_time",
]
LIST_VALUED = {
    "available_operations",
    "raw_ready_operations",
    "unscheduled_operations",
    "scheduled_operations",
    "completed_operations",
    "uncompleted_operations",
    "ongoing_operations",
    "available_machines",
    "available_jobs",
}


def fixed_cases(tier):
    """Long machine sequences (two machines, 30 operations; then 120
    operations on ten machines): every state is queried for the completed /
    ongoing partition and a rotating third query."""
    narrow = {
        "durations": [[1 + (j + 2 * p) % 3 for p in range(6)] for j in range(5)],
        "machines": [[[(j + p) % 2] for p in range(6)] for j in range(5)],
        "name": "I",
        "meta": {},
        "ints": True,
        "family": "fixed_narrow",
    }
    cases = []
    for inst, n in ((narrow, 30), (gen.big_classic(12, 10), 120)):
        events = []
        for k in range(n):
            events.append(["d", (3 * k + 1) % 8, 0])
            events.append(["q", 18, k, 0])  # partition
            events.append(["q", 7, k, 0])  # completed_operations
            events.append(["q", k % len(QUERIES), k, k % 3])
        cases.append({"inst": inst, "filters": None, "events": events, "observers": []})
    return cases


def strategy(tier):
    big = tier == "thorough"
    inst = gen.instances(
        max_jobs=5,
        max_ops=5,
        max_machines=5,
        max_total=30 if big else 20,
        benchmarks=("ft06",),
        big_ok=2,
    )
    q = st.tuples(
        st.just("q"), st.integers(0, len(QUERIES) - 1), st.integers(0, 40), st.integers(0, 5)
    ).map(list)
    d = st.tuples(st.just("d"), st.integers(0, 7), st.integers(0, 5)).map(list)
    r = st.just(["r"])
    o = st.just(["o"])
    b = st.tuples(st.just("b"), st.integers(0, 2)).map(list)
    ev = gen.weighted((12, q), (6, d), (1, r), (1, o), (2, b))
    return st.fixed_dictionaries(
        {
            "inst": inst,
            "filters": gen.weighted(
                (6, gen.filter_configs(custom=True)),
                # a user filter that may reject every candidate, also the only one left
                (1, st.sampled_from([["custom_reserve_machine0"], ["custom_last_job_only", "custom_reserve_machine0"], ["custom_reserve_machine0", "non_idle_machines"]])),
            ),
            "events": gen.sized_lists(ev, 70),
            "observers": gen.weighted((2, st.just([])), (1, obs.feature_configs(min_size=1, max_size=3))),
        }
    )


class State:
    """Expected values for the current state, recomputed from the model."""

    def __init__(self, ctx, drv):
        self.ctx = ctx
        self.drv = drv
        m = drv.model
        avail = m.available(drv.filters)
        if avail is None:
            # dominated filter fed a zero duration: exact result unspecified;
            # take the real result after checking it is a non-empty sub-list
            # of the ready operations (what the property requires there).
            got = [fp.jp(o) for o in drv.dispatcher.available_operations()]
            ready = m.ready()
            ctx.check(
                all(x in ready for x in got)
                and len(set(got)) == len(got)
                and (bool(got) or not ready),
                "available-sublist",
                f"available {got} is not a non-empty sub-list of ready {ready}",
            )
            ctx.count("available_taken_from_real")
            avail = got
        self.avail = avail
        self.now = m.min_start(avail)


def _ops(drv, lst):
    return sorted(fp.jp(o) for o in lst)


def run_query(ctx, drv, stt, name, x, y):
    d, m = drv.dispatcher, drv.model
    inst = drv.inst
    all_ops = m.all_ops()
    now = stt.now

    def expect(got, want, what=name):
        ctx.check(
            got == want,
            "query:" + name,
            f"{what}: got {got}, expected {want} (history {m.order}, now {now})",
        )

    if name == "current_time":
        expect(d.current_time(), now)
    elif name == "available_operations":
        expect(_ops(drv, d.available_operations()), sorted(stt.avail))
    elif name == "raw_ready_operations":
        expect([fp.jp(o) for o in d.raw_ready_operations()], m.ready())
    elif name == "unscheduled_operations":
        expect(_ops(drv, d.unscheduled_operations()), sorted(m.unscheduled()))
    elif name == "scheduled_operations":
        expect(_ops(drv, d.scheduled_operations()), sorted(m.scheduled()))
    elif name == "available_machines":
        got = d.available_machines()
        want = sorted({mm for (j, p) in stt.avail for mm in inst["machines"][j][p]})
        expect(sorted(got), want)
    elif name == "available_jobs":
        got = d.available_jobs()
        expect(sorted(got), sorted({j for (j, p) in stt.avail}))
    elif name == "completed_operations":
        got = d.completed_operations()
        expect(_ops(drv, list(got)), sorted(m.completed(now)))
    elif name == "uncompleted_operations":
        want = sorted(m.unscheduled() + [(j, p) for (j, p, *_r) in m.ongoing(now)])
        expect(_ops(drv, d.uncompleted_operations()), want)
    elif name == "ongoing_operations":
        got = sorted(
            (fp.jp(s.operation) + (s.machine_id, s.start_time, s.end_time))
            for s in d.ongoing_operations()
        )
        expect(got, sorted(m.ongoing(now)))
    elif name == "earliest_start_time":
        ready = m.ready()
        if ready:
            j, p = ready[x % len(ready)]
            expect(d.earliest_start_time(drv.op(j, p)), m.est(j), f"est({j},{p})")
    elif name == "remaining_duration":
        sops = [s for lst in d.schedule.schedule for s in lst]
        if sops:
            s = sops[x % len(sops)]
            expect(
                d.remaining_duration(s),
                s.end_time - max(s.start_time, now),
                f"remaining_duration{fp.jp(s.operation)}",
            )
    elif name == "is_scheduled":
        j, p = all_ops[x % len(all_ops)]
        expect(d.is_scheduled(drv.op(j, p)), p < m.next[j], f"is_scheduled({j},{p})")
    elif name == "is_ongoing":
        sops = [s for lst in d.schedule.schedule for s in lst if s.end_time > now]
        if sops:
            s = sops[x % len(sops)]
            expect(d.is_ongoing(s), s.start_time <= now, f"is_ongoing{fp.jp(s.operation)}")
    elif name == "is_operation_ready":
        j, p = all_ops[x % len(all_ops)]
        expect(d.is_operation_ready(drv.op(j, p)), p == m.next[j], f"ready({j},{p})")
    elif name == "next_operation":
        j = x % m.n_jobs
        if m.next[j] < len(inst["durations"][j]):
            expect(fp.jp(d.next_operation(j)), (j, m.next[j]), f"next_operation({j})")
        else:
            try:
                got = d.next_operation(j)
            except ValidationError:
                ctx.count("next_operation_raises")
            else:
                ctx.fail(
                    "query:next_operation",
                    f"next_operation({j}) returned {got!r} for a finished job",
                )
    elif name == "start_time":
        ready = m.ready()
        if ready:
            j, p = ready[x % len(ready)]
            ms = inst["machines"][j][p]
            mm = ms[y % len(ms)]
            expect(d.start_time(drv.op(j, p), mm), m.start(j, mm), f"start_time(({j},{p}),{mm})")
    elif name == "min_start_time":
        ready = m.ready()
        sub = [op for k, op in enumerate(ready) if (x >> k) & 1]
        expect(
            d.min_start_time([drv.op(j, p) for (j, p) in sub]),
            m.min_start(sub),
            f"min_start_time({sub})",
        )
    elif name == "observer":
        obs = drv.unsched_obs
        got = [[fp.jp(o) for o in dq] for dq in obs.unscheduled_operations_per_job]
        want = [
            [(j, p) for p in range(m.next[j], len(inst["durations"][j]))]
            for j in range(m.n_jobs)
        ]
        expect(got, want, "UnscheduledOperationsObserver.unscheduled_operations_per_job")
        expect(
            [fp.jp(o) for o in obs.unscheduled_operations],
            [x_ for row in want for x_ in row],
            "UnscheduledOperationsObserver.unscheduled_operations",
        )
        expect(obs.num_unscheduled_operations, m.n_ops - m.count(), "num_unscheduled")
    elif name == "partition":
        sch = _ops(drv, d.scheduled_operations())
        uns = _ops(drv, d.unscheduled_operations())
        ong = sorted(fp.jp(s.operation) for s in d.ongoing_operations())
        com = _ops(drv, list(d.completed_operations()))
        unc = _ops(drv, d.uncompleted_operations())
        ctx.check(
            sorted(sch + uns) == sorted(all_ops),
            "partition",
            f"scheduled {sch} + unscheduled {uns} != all operations",
        )
        ctx.check(
            sorted(ong + com) == sch,
            "partition",
            f"ongoing {ong} + completed {com} != scheduled {sch}",
        )
        ctx.check(
            unc == sorted(uns + ong),
            "partition",
            f"uncompleted {unc} != unscheduled {uns} + ongoing {ong}",
        )


def check_case(case, ctx):
    inst, filters, events = case["inst"], case["filters"], case["events"]
    drv = Driver(inst, filters)
    drv.unsched_obs = UnscheduledOperationsObserver(drv.dispatcher)
    if not any(x > 2**24 for r in inst["durations"] for x in r):
        for cfg in case.get("observers", []):
            obs.make_feature_observer(drv.dispatcher, cfg)  # queries must not depend on observers
    stt = State(ctx, drv)
    bystander = None
    n_dispatch = 0
    saw_ongoing = False
    seen_in_state = []
    order_pairs = set()
    for ev in events:
        if ev[0] == "d":
            if drv.model.complete():
                continue
            pool = "available" if (filters and ev[1] % 2 == 0) else "ready"
            if pool == "available" and not drv.dispatcher.available_operations():
                pool = "ready"
            drv.step(ev[1] // 2 if filters else ev[1], ev[2], pool)
            n_dispatch += 1
            stt = State(ctx, drv)
            seen_in_state = []
            if drv.model.ongoing(stt.now):
                saw_ongoing = True
        elif ev[0] == "b":
            # a bystander: another dispatcher with its own observer on another
            # instance lives in the same process and is used in between
            if bystander is None:
                from job_shop_lib import JobShopInstance as _JSI, Operation as _Op
                from job_shop_lib.dispatching import Dispatcher as _D

                other = _JSI([[_Op(0, 2), _Op(1, 1), _Op(0, 3)], [_Op(1, 4)]], name="bystander")
                bd = _D(other)
                bystander = (other, bd, UnscheduledOperationsObserver(bd))
            other, bd, _bo = bystander
            if ev[1] == 0 or bd.schedule.is_complete():
                bd.reset()
            else:
                op = bd.raw_ready_operations()[0]
                bd.dispatch(op, op.machines[0])
            bd.unscheduled_operations()
            ctx.count("bystander_events")
        elif ev[0] == "o":
            # a new observer attached in the middle of the run
            drv.dispatcher.unsubscribe(drv.unsched_obs)
            drv.unsched_obs = UnscheduledOperationsObserver(drv.dispatcher)
            run_query(ctx, drv, stt, "observer", 0, 0)
            ctx.count("observers_attached_mid_run")
        elif ev[0] == "r":
            drv.dispatcher.reset()
            drv.model = ref(inst)
            stt = State(ctx, drv)
            seen_in_state = []
            ctx.count("resets")
        else:
            name = QUERIES[ev[1]]
            run_query(ctx, drv, stt, name, ev[2], ev[3])
            ctx.count("queries")
            if name in LIST_VALUED:
                for prev in seen_in_state:
                    if prev != name:
                        order_pairs.add((prev, name))
                seen_in_state.append(name)
    # final sweep: every query once more in a fixed order
    for name in QUERIES:
        run_query(ctx, drv, stt, name, 1, 1)
    ctx.label(*gen.inst_labels(inst))
    ctx.label("filtered" if filters else "unfiltered")
    both = any((b, a) in order_pairs for (a, b) in order_pairs)
    ctx.nontrivial = n_dispatch >= 3 and saw_ongoing and both
