"""C16 - graph encodings are faithful to the instance and the schedule."""

from __future__ import annotations

from hypothesis import strategies as st

from job_shop_lib import Schedule, ScheduledOperation
from job_shop_lib.constraint_programming import ORToolsSolver
from job_shop_lib.dispatching import Dispatcher
from job_shop_lib.graphs import EdgeType, build_solved_disjunctive_graph

from .. import feasible, gen, obs
from .. import fingerprint as fp
from ..lib import build_filter, build_instance, ref

ID = "C16"
RULE = (
    "Generated (the node lists a graph hands out are edited by the caller before the graph is inspected): instance (all shapes incl. flexible, irregular, recirculation, "
    "unused machine ids) x the 4 graph builders: node list and typed edge set "
    "are compared as sets in both directions with an independent construction "
    "from the matrices (operation nodes first with node_id == operation_id, "
    "then exactly one machine / job / global / source / sink node per entity; "
    "conjunctive chain and source/sink edges; bidirectional disjunctive edges "
    "between different-job operations sharing an eligible machine; the "
    "op-machine, op-job, machine-machine, job-job, same-job and global blocks "
    "of each agent-task variant). Same-job operations sharing a machine also "
    "get both disjunctive edges, except that the job-chain edge itself is "
    "typed conjunctive. Solved graph: positive-duration "
    "instance x complete feasible schedule that is dispatcher-built (optionally with a built-in or user-written ready-operations filter installed and queried; operations are dispatched from all ready ones), CP-SAT "
    "built, or right-shifted (feasible, not semi-active): exact edge set, "
    "acyclic (own Kahn sort), longest duration-weighted source-sink path (own "
    "DP) <= makespan and == makespan for dispatcher-built schedules; a second, different schedule of the same instance object is then encoded and both graphs are verified again. "
    "Non-trivial: >=2 jobs sharing a machine; solved: critical path crosses "
    ">=2 machines."
)
BUDGET = {"quick": 1500, "thorough": 15000}
ASSUMPTIONS = [
    "same-job operations sharing a machine are linked by disjunctive edges too (the property text says 'operations sharing a machine'; the module docstring says 'different jobs' - the property is the specification); a DiGraph holds one edge per ordered pair, so the chain edge is conjunctive",
]


def fixed_cases(tier):
    """150 operations (node ids >= 100, 2100 disjunctive edges) through all
    builders, and a solved graph of the same instance."""
    big_inst = gen.big_classic(15, 10)
    return [
        {"kind": "builders", "inst": big_inst},
        {
            "kind": "solved",
            "inst": big_inst,
            "history": [[(3 * k + 1) % 8, 0] for k in range(150)],
            "how": "dispatcher",
            "filters": None,
            "delays": [0],
        },
    ]


def strategy(tier):
    big = tier == "thorough"
    inst = gen.instances(max_jobs=5, max_ops=5, max_machines=5, max_total=25 if big else 16, benchmarks=("ft06",))
    pos = gen.instances(max_jobs=5, max_ops=5, max_machines=4, max_total=20 if big else 14, zero_ok=False)
    k_build = st.fixed_dictionaries({"kind": st.just("builders"), "inst": inst})
    k_solved = st.fixed_dictionaries(
        {
            "kind": st.just("solved"),
            "inst": pos,
            "history": gen.histories(max_len=20),
            "how": st.sampled_from(["dispatcher", "dispatcher", "cpsat", "shifted", "shifted"]),
            "filters": gen.filter_configs(max_len=2, custom=True),
            "delays": st.lists(st.integers(0, 4), min_size=1, max_size=12),
        }
    )
    return gen.weighted((1, k_build), (1, k_solved))


def expected_graph(inst, builder):
    """(node list [(id, type, ident)], required edges {(u, v): type_or_None},
    optional edges set)."""
    d, m = inst["durations"], inst["machines"]
    flat = [(j, p) for j in range(len(d)) for p in range(len(d[j]))]
    oid = {op: k for k, op in enumerate(flat)}
    n = len(flat)
    n_m = 1 + max(x for row in m for ms in row for x in ms)
    n_j = len(d)
    nodes = [(oid[op], "OPERATION", op) for op in flat]
    req = {}
    opt = set()

    def both(u, v, t=None):
        req[(u, v)] = t
        req[(v, u)] = t

    if builder == "disjunctive":
        src, snk = n, n + 1
        nodes += [(src, "SOURCE", None), (snk, "SINK", None)]
        for a in flat:
            for b in flat:
                if oid[a] < oid[b] and set(m[a[0]][a[1]]) & set(m[b[0]][b[1]]):
                    # the statement says "between operations sharing a
                    # machine", so same-job pairs are included; the chain
                    # edge (j,p)->(j,p+1) is re-typed conjunctive below
                    both(oid[a], oid[b], "DISJUNCTIVE")
        for j, row in enumerate(d):
            for p in range(1, len(row)):
                req[(oid[(j, p - 1)], oid[(j, p)])] = "CONJUNCTIVE"
            req[(src, oid[(j, 0)])] = "CONJUNCTIVE"
            req[(oid[(j, len(row) - 1)], snk)] = "CONJUNCTIVE"
        return nodes, req, opt
    mach = {x: n + x for x in range(n_m)}
    nodes += [(mach[x], "MACHINE", x) for x in range(n_m)]
    for op in flat:
        for x in m[op[0]][op[1]]:
            both(oid[op], mach[x])
    if builder in ("agent_task", "agent_task_with_jobs"):
        for x in range(n_m):
            for y in range(x + 1, n_m):
                both(mach[x], mach[y])
    if builder == "agent_task":
        for a in flat:
            for b in flat:
                if a[0] == b[0] and oid[a] < oid[b]:
                    both(oid[a], oid[b])
        return nodes, req, opt
    job = {j: n + n_m + j for j in range(n_j)}
    nodes += [(job[j], "JOB", j) for j in range(n_j)]
    for op in flat:
        both(oid[op], job[op[0]])
    if builder == "agent_task_with_jobs":
        for a in range(n_j):
            for b in range(a + 1, n_j):
                both(job[a], job[b])
        return nodes, req, opt
    glob = n + n_m + n_j
    nodes.append((glob, "GLOBAL", None))
    for x in range(n_m):
        both(glob, mach[x])
    for j in range(n_j):
        both(glob, job[j])
    return nodes, req, opt


def real_nodes(g):
    out = []
    for nd in g.nodes:
        t = nd.node_type.name
        ident = None
        if t == "OPERATION":
            ident = fp.jp(nd.operation)
        elif t == "MACHINE":
            ident = nd.machine_id
        elif t == "JOB":
            ident = nd.job_id
        out.append((nd.node_id, t, ident))
    return out


def edge_type(data):
    t = data.get("type")
    return t.name if isinstance(t, EdgeType) else t


def check_builder(ctx, inst, instance, builder):
    g = obs.BUILDERS[builder](instance)
    # a caller takes the lists the graph hands out and works on them (sorts,
    # pops, extends) - its own lists; the graph is looked at afterwards
    for handed_out in (g.non_removed_nodes(), list(g.nodes), g.nodes_by_type.get(next(iter(g.nodes_by_type)), [])[:]):
        handed_out.reverse()
        if handed_out:
            handed_out.pop()
        handed_out.extend(handed_out[:1])
    nodes, req, opt = expected_graph(inst, builder)
    got_nodes = real_nodes(g)
    ctx.check(
        got_nodes == nodes,
        "nodes:" + builder,
        f"{builder}: nodes {got_nodes} expected {nodes}",
    )
    ctx.check(
        sorted(g.graph.nodes) == list(range(len(nodes))) and not any(g.removed_nodes) and len(g.removed_nodes) == len(nodes),
        "nx-nodes:" + builder,
        f"{builder}: networkx nodes {sorted(g.graph.nodes)}, removed flags {g.removed_nodes}",
    )
    for i, nd in enumerate(g.nodes):
        ctx.check(
            g.graph.nodes[i].get("node") is nd,
            "node-attr:" + builder,
            f"{builder}: networkx node {i} does not carry its Node object",
        )
    got = {(u, v): edge_type(data) for u, v, data in g.graph.edges(data=True)}
    label = {n_[0]: (n_[1], n_[2]) for n_ in nodes}
    missing = [e for e in req if e not in got]
    ctx.check(
        not missing,
        "missing-edges:" + builder,
        f"{builder}: missing edges {[(label[u], label[v], req[(u, v)]) for u, v in missing[:6]]}",
    )
    extra = [e for e in got if e not in req and e not in opt]
    ctx.check(
        not extra,
        "extra-edges:" + builder,
        f"{builder}: unexpected edges {[(label.get(u), label.get(v), got[(u, v)]) for u, v in extra[:6]]}",
    )
    if builder == "disjunctive":
        wrong = [e for e in req if got.get(e) != req[e]]
        ctx.check(
            not wrong,
            "edge-type:" + builder,
            f"{builder}: wrongly typed edges {[(label[u], label[v], got.get((u, v)), req[(u, v)]) for u, v in wrong[:6]]}",
        )
        wrong = [e for e in got if e in opt and e not in req and got[e] != "DISJUNCTIVE"]
        ctx.check(not wrong, "edge-type:" + builder, f"{builder}: same-job machine edges typed {[(e, got[e]) for e in wrong[:4]]}")
    ctx.check(g.num_edges == len(got), "num_edges:" + builder, f"num_edges {g.num_edges} vs {len(got)}")
    ctx.count("graphs_built")


def longest_path(n_ops, durs, edges, src, snk):
    """Kahn sort + DP; returns (is_dag, longest path weight src->snk, path)."""
    nodes = set(range(n_ops)) | {src, snk}
    succ = {u: [] for u in nodes}
    indeg = {u: 0 for u in nodes}
    for u, v in edges:
        succ[u].append(v)
        indeg[v] += 1
    order = []
    stack = [u for u in nodes if indeg[u] == 0]
    while stack:
        u = stack.pop()
        order.append(u)
        for v in succ[u]:
            indeg[v] -= 1
            if indeg[v] == 0:
                stack.append(v)
    if len(order) != len(nodes):
        return False, None, None
    w = lambda u: durs[u] if u < n_ops else 0
    best = {u: None for u in nodes}
    prev = {}
    best[src] = w(src)
    for u in order:
        if best[u] is None:
            continue
        for v in succ[u]:
            cand = best[u] + w(v)
            if best[v] is None or cand > best[v]:
                best[v] = cand
                prev[v] = u
    path = []
    u = snk
    while u in prev:
        path.append(u)
        u = prev[u]
    path.append(u)
    return True, best[snk], path[::-1]


def build_schedule(case, inst, instance):
    # a ready-operations filter (built-in or user-written) may be installed;
    # operations are dispatched from all ready ones, offered or not
    d = Dispatcher(instance, build_filter(case.get("filters")))
    for _ in range(len(case["history"]) % 3):
        d.current_time()
        d.available_operations()
    model = ref(inst)
    history = case["history"]
    k = 0
    while not model.complete():
        a, b = history[k] if k < len(history) else (0, 0)
        k += 1
        ready = model.ready()
        j, p = ready[a % len(ready)]
        ms = inst["machines"][j][p]
        mm = ms[b % len(ms)]
        d.dispatch(instance.jobs[j][p], mm)
        model.apply(j, mm)
    how = case["how"]
    flexible = any(len(ms) > 1 for row in inst["machines"] for ms in row)
    if how == "cpsat" and not flexible and gen.num_ops(inst) <= 14:
        return ORToolsSolver().solve(instance), "cpsat"
    if how == "shifted":
        delays = case["delays"]
        new_end_job = {}
        new_end_machine = {}
        lists = [[] for _ in range(model.n_machines)]
        order = sorted(model.order, key=lambda t: (t[3], t[4]))
        # keep per-machine order: process in original dispatch order
        for i, (j, p, mm, s, e) in enumerate(model.order):
            start = max(
                s + delays[i % len(delays)],
                new_end_job.get(j, 0),
                new_end_machine.get(mm, 0),
            )
            end = start + inst["durations"][j][p]
            new_end_job[j] = end
            new_end_machine[mm] = end
            lists[mm].append(ScheduledOperation(instance.jobs[j][p], start, mm))
        del order
        return Schedule(instance, lists), "shifted"
    return d.schedule, "dispatcher"


def check_solved(ctx, case):
    inst = case["inst"]
    instance = build_instance(inst)
    sched, how = build_schedule(case, inst, instance)
    g = None
    rows = fp.schedule_rows(sched)
    probs = feasible.problems(inst["durations"], inst["machines"], rows, partial=False)
    if probs or not feasible.is_complete(inst["durations"], rows):
        # our own construction must be feasible; CP-SAT's is C03's business
        ctx.check(how == "cpsat", "harness-schedule", f"check built an infeasible {how} schedule: {probs}")
        return
    g = build_solved_disjunctive_graph(sched)
    _verify_solved(ctx, inst, sched, how, g, "")
    # a second, different schedule of the SAME instance object is encoded;
    # both graphs are then looked at again
    d2 = Dispatcher(instance)
    m2 = ref(inst)
    while not m2.complete():
        j, p = m2.ready()[-1]
        x = inst["machines"][j][p][-1]
        d2.dispatch(instance.jobs[j][p], x)
        m2.apply(j, x)
    g2 = build_solved_disjunctive_graph(d2.schedule)
    _verify_solved(ctx, inst, d2.schedule, "dispatcher", g2, "second schedule of the same instance: ")
    _verify_solved(ctx, inst, sched, how, g, "first graph, after a second schedule of the same instance was encoded: ")
    ctx.label("solved=" + how, *gen.inst_labels(inst))


def _verify_solved(ctx, inst, sched, how, g, tag):
    rows = fp.schedule_rows(sched)
    d = inst["durations"]
    flat = [(j, p) for j in range(len(d)) for p in range(len(d[j]))]
    oid = {op: k for k, op in enumerate(flat)}
    n = len(flat)
    src, snk = n, n + 1
    want_nodes = [(oid[op], "OPERATION", op) for op in flat] + [(src, "SOURCE", None), (snk, "SINK", None)]
    ctx.check(real_nodes(g) == want_nodes, "solved-nodes", f"{tag}solved graph nodes {real_nodes(g)}")
    req = {}
    for j, row in enumerate(d):
        for p in range(1, len(row)):
            req[(oid[(j, p - 1)], oid[(j, p)])] = "CONJUNCTIVE"
        req[(src, oid[(j, 0)])] = "CONJUNCTIVE"
        req[(oid[(j, len(row) - 1)], snk)] = "CONJUNCTIVE"
    for lst in rows:
        for a, b in zip(lst, lst[1:]):
            e = (oid[(a[0], a[1])], oid[(b[0], b[1])])
            if e not in req:
                req[e] = "DISJUNCTIVE"
            else:
                req[e] = None  # chain edge that is also a machine edge: type not asserted
    got = {(u, v): edge_type(data) for u, v, data in g.graph.edges(data=True)}
    missing = [e for e in req if e not in got]
    extra = [e for e in got if e not in req]
    ctx.check(not missing, "solved-missing-edges", f"{tag}{how} schedule {rows}: solved graph lacks edges {[(flat[u] if u < n else u, flat[v] if v < n else v) for u, v in missing]}")
    ctx.check(not extra, "solved-extra-edges", f"{tag}{how} schedule: solved graph has unexpected edges {extra[:6]}")
    wrong = [e for e in req if req[e] is not None and got.get(e) != req[e]]
    ctx.check(not wrong, "solved-edge-type", f"{tag}solved graph edge types wrong for {wrong[:6]}")
    durs = [d[j][p] for (j, p) in flat]
    dag, length, path = longest_path(n, durs, list(got), src, snk)
    ctx.check(dag, "solved-cyclic", f"{tag}{how} schedule {rows}: solved graph has a cycle")
    mk = feasible.makespan(rows)
    ctx.check(
        length is not None and length <= mk,
        "path-exceeds-makespan",
        f"{how} schedule: longest path {length} > makespan {mk}",
    )
    if how == "dispatcher":
        ctx.check(
            length == mk,
            "path-below-makespan",
            f"dispatcher-built schedule {rows}: longest path {length} != makespan {mk}",
        )
    where = {(r[0], r[1]): r[4] for lst in rows for r in lst}
    machines_on_path = {where[flat[u]] for u in path if u < n}
    ctx.count("solved_graphs")
    ctx.nontrivial = ctx.nontrivial or len(machines_on_path) >= 2


def check_case(case, ctx):
    ctx.label("kind=" + case["kind"])
    if case["kind"] == "solved":
        check_solved(ctx, case)
        return
    inst = case["inst"]
    instance = build_instance(inst)
    for b in sorted(obs.BUILDERS):
        check_builder(ctx, inst, instance, b)
    # graphs built earlier are not affected by building other graphs
    first = {b: obs.BUILDERS[b](instance) for b in sorted(obs.BUILDERS)}
    other = {
        "durations": inst["durations"] + [[1, 2, 3]],
        "machines": inst["machines"] + [[[0], [0], [0]]],
        "name": "other",
        "meta": {},
        "ints": True,
    }
    other_instance = build_instance(other)
    for b in sorted(obs.BUILDERS):
        obs.BUILDERS[b](other_instance)
    for b, g in first.items():
        nodes, _req, _opt = expected_graph(inst, b)
        ctx.check(
            real_nodes(g) == nodes and all(g.nodes[i].node_id == i for i in range(len(g.nodes))),
            "earlier-graph-changed:" + b,
            f"{b}: a graph built earlier changed after graphs of another instance were built: nodes {real_nodes(g)[-3:]}",
        )
    # a graph composed from the public building blocks, machine nodes added
    # in reverse order
    from job_shop_lib.graphs import JobShopGraph, Node, NodeType, add_operation_machine_edges

    g = JobShopGraph(instance)
    n_m = instance.num_machines
    for x in reversed(range(n_m)):
        g.add_node(Node(node_type=NodeType.MACHINE, machine_id=x))
    add_operation_machine_edges(g)
    node_of = {nd.machine_id: nd.node_id for nd in g.nodes_by_type[NodeType.MACHINE]}
    want = set()
    k = 0
    for j, row in enumerate(inst["machines"]):
        for ms in row:
            for x in ms:
                want.add((k, node_of[x]))
                want.add((node_of[x], k))
            k += 1
    got = set(g.graph.edges())
    ctx.check(
        got == want,
        "composed-graph-edges",
        f"add_operation_machine_edges on a graph whose machine nodes were added in reverse order: "
        f"missing {sorted(want - got)[:4]}, extra {sorted(got - want)[:4]}",
    )
    for x in range(n_m):
        ctx.check(g.get_machine_node(x).machine_id == x, "get-machine-node", f"get_machine_node({x}) returned machine {g.get_machine_node(x).machine_id}")
    ctx.label(*gen.inst_labels(inst))
    m = inst["machines"]
    shared = False
    for a in range(len(m)):
        for b in range(a + 1, len(m)):
            if {x for ms in m[a] for x in ms} & {x for ms in m[b] for x in ms}:
                shared = True
    ctx.nontrivial = shared
