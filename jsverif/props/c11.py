"""C11 - incremental features equal a from-scratch recomputation."""

from __future__ import annotations

import numpy as np
from hypothesis import strategies as st

from job_shop_lib.dispatching import HistoryObserver, UnscheduledOperationsObserver
from job_shop_lib.dispatching.feature_observers import (
    CompositeFeatureObserver,
    FeatureType,
)

from .. import gen, obs
from .. import fingerprint as fp
from ..lib import Driver, disturb, fork, ref

ID = "C11"
RULE = (
    "Generated: instance (all shapes; with a filter installed only positive "
    "durations) x one observer of each of the 7 built-in types (generated "
    "feature-type subset, created through class / enum / string spelling, in "
    "generated order, all before the first dispatch) + 0-2 extra observers, optionally with a built-in unscheduled-operations / history observer subscribed among them, x "
    "optional filter composition x choice sequence, with the built-in rules / "
    "scoring functions optionally called between dispatches (read-only "
    "consumers of the observers); composites over generated "
    "sub-lists built by CompositeFeatureObserver(...) and by "
    "from_feature_observer_configs; up to two dispatcher resets at generated "
    "points, the checks continuing in the following episodes; optionally the dispatcher is deep-copied (observers included) at a generated step, the original played on, and the checks continue on the copy. Oracle after construction and after every "
    "dispatch, for every operation / job / machine that still has unscheduled "
    "work: feature == value recomputed from (instance, history) by the "
    "independent model (readiness from the model's filter criterion; earliest "
    "start by the exact recursion minus current time; remaining durations; "
    "scheduled flags and ongoing counts; position among unscheduled; remaining "
    "operations; completion flags); machine-level counts only on non-flexible "
    "instances; plus: scheduled flag 1 for scheduled operations, completed flag "
    "1 exactly for completed operations, Duration of the operation just "
    "dispatched == end - max(start, now) when positive. Composite == "
    "column-wise concatenation of its parts in order, column names match. "
    "Non-trivial: >=4 dispatches, >=2 jobs and the instance has recirculation, "
    "irregular jobs, unequal machine loads or a flexible operation."
)
BUDGET = {"quick": 400, "thorough": 3000}
ASSUMPTIONS = [
    "entities without unscheduled work are not asserted (DurationObserver documents stale values there)",
    "all observers are created before the first dispatch",
    "feature values are compared after rounding the expected integer to float32 (exact below 2**24); with durations beyond 2**24 the construction-time state is not asserted",
]


@st.composite
def _cases(draw, tier):
    big = tier == "thorough"
    filters = draw(gen.filter_configs(max_len=3, custom=True))
    inst = draw(
        gen.instances(
            max_jobs=6 if big else 5,
            max_ops=6 if big else 5,
            max_machines=5,
            max_total=30 if big else 20,
            zero_ok=filters is None,
            benchmarks=("ft06",),
            big_ok=True,
        )
    )
    base = []
    for kind in draw(st.permutations(obs.KINDS)):
        sup = obs.SUPPORTED[kind]
        ft = draw(
            st.one_of(
                st.none(),
                st.lists(st.sampled_from(sup), min_size=1, max_size=len(sup), unique=True),
            )
        )
        base.append([kind, ft, draw(st.integers(0, 2))])
    extra = draw(obs.feature_configs(min_size=0, max_size=2))
    n_obs = len(base) + len(extra)
    comp = draw(
        st.lists(st.integers(0, n_obs - 1), min_size=1, max_size=n_obs, unique=True)
    )
    return {
        "inst": inst,
        "filters": filters,
        "bystanders": draw(gen.pick([0, 1, 0, 3, 0, 2])),
        "fork": draw(gen.pick([None, 2, None, 0, None, 5, None, 1])),
        "observers": base + extra,
        "composite": comp,
        "composite_cfgs": draw(obs.feature_configs(min_size=1, max_size=4)),
        "history": draw(gen.histories(max_len=60)),
        "resets": draw(st.lists(st.integers(0, 25), max_size=2)),
        "consumers": draw(st.integers(0, 7)),
    }


def fixed_cases(tier):
    """More than 255 operations on one machine, and a job with more than 255
    operations (narrow counters must not wrap); completion and remaining
    operations observers only, to keep the case cheap."""
    n = 260
    wide = {
        "durations": [[1 + j % 3] if j % 20 else [2, 1] for j in range(n)],
        "machines": [[[0]] if j % 20 else [[0], [1]] for j in range(n)],
        "name": "wide",
        "meta": {},
        "ints": True,
        "family": "fixed",
    }
    long_job = {
        "durations": [[1 + p % 2 for p in range(n)], [2, 3]],
        "machines": [[[p % 2] for p in range(n)], [[1], [0]]],
        "name": "long_job",
        "meta": {},
        "ints": True,
        "family": "fixed",
    }
    return [
        {
            "inst": inst,
            "filters": None,
            "history": [[(7 * k) % 5, 0] for k in range(40)],
            "observers": [["is_completed", None, 0], ["remaining_operations", None, 1]],
            "composite": [0, 1],
            "composite_cfgs": [["is_completed", None, 2]],
            "resets": [],
            "consumers": 1,
            "bystanders": 0,
            "fork": None,
        }
        for inst in (wide, long_job)
    ]


def strategy(tier):
    return _cases(tier)


def spec(m, inst, avail, now, flexible, monotone_clock=True):
    """Expected feature values for entities with unscheduled work.
    Returns {kind: {ftype: {index: value}}} (plus extra clauses)."""
    d, mach = inst["durations"], inst["machines"]
    n_jobs, n_m = m.n_jobs, m.n_machines
    uns = m.unscheduled()
    jobs_left = sorted({j for (j, _p) in uns})
    machines_left = sorted({x for (j, p) in uns for x in mach[j][p]})
    oid = {op: m.op_id(*op) for op in m.all_ops()}
    est = {}
    for j in jobs_left:
        t = m.job_free(j)
        for p in range(m.next[j], len(d[j])):
            t = max(t, min(m.machine_free(x) for x in mach[j][p]))
            est[(j, p)] = t
            t += d[j][p]
    ongoing = m.ongoing(now)
    out = {k: {"operations": {}, "jobs": {}, "machines": {}} for k in obs.KINDS}
    avail_set = set(avail)
    for op in uns:
        j, p = op
        i = oid[op]
        out["is_ready"]["operations"][i] = 1 if op in avail_set else 0
        out["earliest_start_time"]["operations"][i] = est[op] - now
        out["duration"]["operations"][i] = d[j][p]
        out["is_scheduled"]["operations"][i] = 0
        out["position_in_job"]["operations"][i] = p - m.next[j]
        out["is_completed"]["operations"][i] = 0
    for op in m.scheduled():
        out["is_scheduled"]["operations"][oid[op]] = 1
    if monotone_clock:
        # exact only when the clock cannot go backwards (no filter, or
        # built-in filters with positive durations - C06's domain)
        done = set(m.completed(now))
        for op in m.all_ops():
            out["is_completed"]["operations"][oid[op]] = 1 if op in done else 0
    for j in jobs_left:
        out["is_ready"]["jobs"][j] = 1 if any(a[0] == j for a in avail) else 0
        out["earliest_start_time"]["jobs"][j] = est[(j, m.next[j])] - now
        out["duration"]["jobs"][j] = sum(d[j][m.next[j]:])
        out["is_scheduled"]["jobs"][j] = sum(1 for o in ongoing if o[0] == j)
        out["remaining_operations"]["jobs"][j] = len(d[j]) - m.next[j]
        out["is_completed"]["jobs"][j] = 0
    avail_machines = {x for (j, p) in avail for x in mach[j][p]}
    for x in machines_left:
        out["is_ready"]["machines"][x] = 1 if x in avail_machines else 0
        out["earliest_start_time"]["machines"][x] = (
            min(est[(j, p)] for (j, p) in uns if x in mach[j][p]) - now
        )
        out["is_completed"]["machines"][x] = 0
        if not flexible:
            out["duration"]["machines"][x] = sum(
                d[j][p] for (j, p) in uns if mach[j][p] == [x]
            )
            out["is_scheduled"]["machines"][x] = sum(1 for o in ongoing if o[2] == x)
            out["remaining_operations"]["machines"][x] = sum(
                1 for (j, p) in uns if mach[j][p] == [x]
            )
    return out


def check_case(case, ctx):
    inst, filters, history = case["inst"], case["filters"], case["history"]
    drv = Driver(inst, filters)
    d, m = drv.dispatcher, drv.model
    flexible = any(len(ms) > 1 for row in inst["machines"] for ms in row)
    # other built-in observers may share the dispatcher, subscribed among the
    # feature observers (an environment also has a history / unscheduled
    # operations observer and a reward)
    bystanders = case.get("bystanders", 0)
    observers = []
    for i, cfg in enumerate(case["observers"]):
        observers.append(obs.make_feature_observer(d, cfg))
        if i == 0 and bystanders & 1:
            UnscheduledOperationsObserver(d)
        if i == 0 and bystanders & 2:
            HistoryObserver(d)
    if bystanders:
        ctx.label("bystander_observers")
    for o, cfg in zip(observers, case["observers"]):
        ctx.check(
            type(o) is obs.CLASSES[cfg[0]]
            and sorted(ft.value for ft in o.features) == sorted(obs.expected_feature_types(cfg)),
            "factory",
            f"observer for {cfg}: {type(o).__name__} with features {list(o.features)}",
        )
    parts = [observers[i] for i in case["composite"]]
    types_in_parts = {ft for o in parts for ft in o.features}
    comp1 = CompositeFeatureObserver(d, feature_observers=list(parts))
    # second composite: from configs (creates its own observers)
    comp2 = CompositeFeatureObserver.from_feature_observer_configs(
        d, [obs.observer_config(c) for c in case["composite_cfgs"]]
    )
    comp2_parts = comp2.feature_observers
    # a composite created with the default component list picks up every
    # subscribed feature observer, the two composites above included
    comp3 = None
    if case.get("consumers", 0) % 2 == 0:
        from job_shop_lib.dispatching.feature_observers import FeatureObserver as _FO

        expected_parts3 = [o for o in d.subscribers if isinstance(o, _FO)]
        comp3 = CompositeFeatureObserver(d)
        ctx.check(
            len(comp3.feature_observers) == len(expected_parts3)
            and all(a is b for a, b in zip(comp3.feature_observers, expected_parts3)),
            "composite-default-parts",
            f"CompositeFeatureObserver(dispatcher) aggregates {[type(o).__name__ for o in comp3.feature_observers]}, "
            f"subscribed feature observers are {[type(o).__name__ for o in expected_parts3]}",
        )
    ctx.check(
        [type(o) for o in comp2_parts] == [obs.CLASSES[c[0]] for c in case["composite_cfgs"]],
        "composite-from-configs",
        f"from_feature_observer_configs built {[type(o).__name__ for o in comp2_parts]}",
    )
    n = m.n_ops
    n_entities = {"operations": n, "jobs": m.n_jobs, "machines": m.n_machines}

    def check_composite(comp, its_parts, where):
        for ft in FeatureType:
            cols = [o.features[ft] for o in its_parts if ft in o.features]
            if not cols:
                ctx.check(ft not in comp.features, "composite-extra-type", f"{where}: composite has {ft} without parts")
                continue
            ctx.check(ft in comp.features, "composite-missing-type", f"{where}: composite lacks {ft}")
            want = np.concatenate(cols, axis=1)
            got = comp.features[ft]
            ctx.check(
                got.shape == want.shape and np.array_equal(got, want, equal_nan=True),
                "composite-concatenation",
                f"{where}: composite.features[{ft.value}] =\n{got}\nconcatenation of parts =\n{want}",
            )
            names = []
            for o in its_parts:
                if ft in o.features:
                    base = type(o).__name__.replace("Observer", "")
                    w = o.features[ft].shape[1]
                    names += [base] if w == 1 else [f"{base}_{i}" for i in range(w)]
            ctx.check(
                list(comp.column_names[ft]) == names and len(names) == got.shape[1],
                "composite-column-names",
                f"{where}: column_names[{ft.value}] = {comp.column_names[ft]}, expected {names}",
            )

    huge = any(x > 2**24 for r in inst["durations"] for x in r)

    def check_all(where, last=None):
        avail = m.available(filters)
        if avail is None:  # cannot happen: filters imply positive durations
            avail = [fp.jp(o) for o in d.available_operations()]
        now = m.min_start(avail)
        custom = bool(filters) and any(n.startswith("custom_") for n in filters)
        want = spec(m, inst, avail, now, flexible, monotone_clock=not custom)
        for o, cfg in zip(observers, case["observers"]):
            kind = cfg[0]
            for ft, a in o.features.items():
                ctx.check(
                    a.shape == (n_entities[ft.value], 1) and a.dtype == np.float32,
                    "feature-shape",
                    f"{where}: {kind}.{ft.value} shape {a.shape} dtype {a.dtype}",
                )
                if huge and kind == "duration":
                    # float32 running sums of values beyond 2**24 drift by
                    # design; not asserted
                    continue
                for idx, val in want[kind][ft.value].items():
                    got = float(a[idx, 0])
                    # features are float32: an exact integer below 2**24 is
                    # compared exactly, a larger one after the same rounding
                    if got != float(np.float32(val)):
                        ctx.fail(
                            f"feature:{kind}:{ft.value}",
                            f"{where} (history {[(j, p, x) for (j, p, x, _s, _e) in m.order]}, now {now}, "
                            f"filters {filters}): {kind}.{ft.value}[{idx}] = {got}, recomputation gives {val}",
                        )
                    ctx.count("values_compared")
            if last is not None and kind == "duration" and FeatureType.OPERATIONS in o.features and not huge:
                j, p, s, e = last
                rem = e - max(s, now)
                if rem > 0:
                    got = float(o.features[FeatureType.OPERATIONS][m.op_id(j, p), 0])
                    ctx.check(
                        got == float(np.float32(rem)),
                        "feature:duration:just-dispatched",
                        f"{where}: Duration of just dispatched ({j},{p}) = {got}, end - max(start, now) = {rem}",
                    )
        check_composite(comp1, parts, where)
        check_composite(comp2, comp2_parts, where)
        if comp3 is not None:
            check_composite(comp3, comp3.feature_observers, where + " (composite over all subscribed, nested)")
            for ft, frame in (comp3.features_as_dataframe.items() if m.complete() else ()):
                ctx.check(
                    list(frame.columns) == list(comp3.column_names[ft]) and frame.shape == comp3.features[ft].shape,
                    "composite-dataframe",
                    f"{where}: features_as_dataframe[{ft.value}] has columns {list(frame.columns)}",
                )

    # (before repair ae5c979 the constructor used float32 cumulative sums and
    # this state was exempted for durations beyond 2**24)
    check_all("after construction")
    consumers = case.get("consumers", 0)

    def read_only_consumers():
        # rules and scoring functions are read-only users of the state and of
        # the observers subscribed to the dispatcher
        from job_shop_lib.dispatching.rules import (
            most_operations_remaining_score,
            most_work_remaining_rule,
            observer_based_most_work_remaining_rule,
            shortest_processing_time_score,
        )

        if m.complete():
            return
        if consumers & 1:
            observer_based_most_work_remaining_rule(d)
        if consumers & 2:
            most_work_remaining_rule(d)
            shortest_processing_time_score(d)
        if consumers & 4:
            most_operations_remaining_score(d)

    resets = sorted(case.get("resets", []))
    pos = 0
    episode = 0
    fork_at = case.get("fork")
    while True:
        if resets and m.count() >= min(resets[0], n):
            resets.pop(0)
            d.reset()
            drv.model = m = ref(inst)
            episode += 1
            ctx.count("resets")
            check_all(f"after reset #{episode}")
            continue
        if m.complete():
            break
        if fork_at is not None and m.count() >= fork_at:
            # a planner deep-copies the dispatcher (observers included) here;
            # the ORIGINAL is played on for a few steps, the checks continue
            # on the copy, whose observers must follow the copy
            fork_at = None
            subs = list(d.subscribers)

            def twin_of(o, subs=subs):
                return clone.subscribers[next(i for i, x in enumerate(subs) if x is o)]

            original, original_model = d, m
            clone, m = fork(d, m)
            if all(any(x is o for x in subs) for o in observers + [comp1, comp2] + ([comp3] if comp3 is not None else [])):
                observers = [twin_of(o) for o in observers]
                comp1, comp2 = twin_of(comp1), twin_of(comp2)
                parts, comp2_parts = list(comp1.feature_observers), list(comp2.feature_observers)
                if comp3 is not None:
                    comp3 = twin_of(comp3)
                d = clone
                drv.dispatcher, drv.instance, drv.model = clone, clone.instance, m
                disturb(original, original_model, inst, 3)
                ctx.label("forked")
                check_all(f"deep copy taken after {m.count()} dispatches, the original having gone on")
            else:  # (not reached: every observer of the case is subscribed)
                m = original_model
        read_only_consumers()
        a, b = history[pos] if pos < len(history) else (0, 0)
        pos += 1
        pool = "available" if filters else "ready"
        if pool == "available" and not d.available_operations():
            pool = "ready"
        j, p, x, s, e = drv.step(a, b, pool)
        check_all(f"episode {episode}, after dispatch of ({j},{p}) on {x}", last=(j, p, s, e))
        ctx.count("steps")
    labels = gen.inst_labels(inst)
    ctx.label(*labels)
    ctx.label("filtered" if filters else "unfiltered")
    ctx.label(*["composite_has=" + ft.value for ft in types_in_parts])
    ctx.nontrivial = (
        n >= 4
        and m.n_jobs >= 2
        and any(x in labels for x in ("recirculation", "irregular", "unequal_machine_ops", "flexible"))
    )
