"""C06 - time only moves forward."""

from __future__ import annotations

from hypothesis import strategies as st

from .. import feasible, gen, obs
from .. import fingerprint as fp
from ..lib import Driver, disturb, fork

ID = "C06"
RULE = (
    "Generated: (a) no filter: instance of any shape incl. zero durations and "
    "flexible operations; (b) a composition of 1-4 built-in filters: instance "
    "with positive durations; x choice sequence over available_operations(), optionally after an abandoned episode and a reset(), the new episode then optionally starting with an equally long stretch in which the dispatcher is not queried; optionally the dispatcher is deep-copied at a generated step, the copy dispatched and queried (a look-ahead), the original continued, and both compared with their own models. "
    "Oracle along the history, read from the real dispatcher: current_time() "
    "never decreases, completed_operations() only grows, current_time() equals "
    "the independent model's minimum start over the (model-filtered) ready "
    "operations, equals the makespan once complete (also the checker's max "
    "end), and - case (b) - equals the current time of a twin dispatcher "
    "without filter driven through the same dispatches. Non-trivial: the "
    "clock takes >=3 distinct values and at least one dispatch leaves it "
    "unchanged."
)
RULE += (
    " Thorough tier additionally, split among the workers: small-scope exhaustive "
    "enumeration - all 29331 instances with job lengths (1) (2) (3) (1,1) (1,2) "
    "(2,1) (2,2) (1,1,1) (1,1,2) (1,2,1) (2,1,1), machine sets {[0],[1],[0,1]}, "
    "durations {0,1,3} - with every dispatch history of each (jsverif/smallscope.py)."
)
BUDGET = {"quick": 1000, "thorough": 10000}
ASSUMPTIONS = [
    "with a filter installed only positive durations are generated (the statement's domain)",
]


@st.composite
def _cases(draw, tier):
    big = tier == "thorough"
    filters = draw(gen.filter_configs(max_len=4))
    inst = draw(
        gen.instances(
            max_jobs=6 if big else 5,
            max_ops=6 if big else 5,
            max_machines=6 if big else 5,
            max_total=36 if big else 25,
            zero_ok=filters is None,
            benchmarks=("ft06", "la01") if big else ("ft06",),
            big_ok=2,
        )
    )
    observers = draw(gen.weighted((2, st.just([])), (1, obs.feature_configs(min_size=1, max_size=3))))
    return {
        "inst": inst,
        "filters": filters,
        "history": draw(gen.histories()),
        "observers": observers,
        "pre": draw(st.one_of(st.just(0), st.just(0), st.integers(1, 12))),
        "blind": draw(gen.pick([False, True])),
        "fork": draw(gen.pick([None, 1, None, 0, None, 3, None, 2])),
    }


def fixed_cases(tier):
    """34 jobs ready at once (more ready operations than any generated
    case has), flexible, under the filters that compare start times."""
    inst = gen.many_ready(34, 4)
    # ... and a skewed one: nearly everything queues for machine 0, a few
    # operations may also use machine 1, the highest-numbered machine is idle
    skewed = {
        "durations": [[3], [2], [4], [1, 1]] + [[1 + i % 3] for i in range(33)],
        "machines": [[[0, 1]], [[0, 1]], [[0, 1]], [[0], [2]]] + [[[0]] for _ in range(33)],
        "name": "skewed",
        "meta": {},
        "ints": True,
        "family": "fixed_many_ready",
    }
    general = [[(5 * k + 1) % 8, k % 2] for k in range(40)]
    # (job 0 on machine 1, job 1 on machine 0: then 35 operations are ready,
    # one of them flexible, and none can start before time 2)
    busy_first = [[0, 1], [0, 0]] + [[(3 * k) % 8, 0] for k in range(40)]
    return [
        {"inst": i, "filters": f, "history": h, "observers": [], "pre": 0}
        for i, h in ((inst, general), (skewed, busy_first), (skewed, general))
        for f in (None, ["non_immediate_operations"], ["dominated_operations", "non_immediate_operations"])
    ]


def strategy(tier):
    return _cases(tier)


SMALL_FILTERS = [None] + [[n] for n in gen.FILTER_NAMES] + [
    ["dominated_operations", "non_idle_machines"],
    ["non_immediate_machines", "dominated_operations"],
]


def worker_cases(tier, index, n):
    if tier != "thorough":
        return
    from .. import smallscope

    for inst in smallscope.shard(index, n):
        yield {"mode": "small_scope", "inst": inst}


def _small_scope(case, ctx):
    """Every complete history of the instance (all choices among AVAILABLE
    operations), under no filter and - for positive durations - under each
    single built-in filter and two compositions."""
    from ..lib import build_instance

    inst = case["inst"]
    positive = all(x > 0 for r in inst["durations"] for x in r)
    for filters in SMALL_FILTERS if positive else [None]:

        def rec(prefix):
            drv = Driver(inst, filters)
            twin = Driver(inst, None) if filters else None
            d, m = drv.dispatcher, drv.model
            prev_now, prev_done = None, set()
            for k in range(len(prefix) + 1):
                now = d.current_time()
                done = {fp.jp(o) for o in d.completed_operations()}
                avail = m.available(filters)
                ctx.check(now == m.min_start(avail), "now-vs-model", f"filters {filters}, history {prefix[:k]}: current_time()={now}, model {m.min_start(avail)}")
                ctx.check(done == set(m.completed(now)), "completed-vs-model", f"filters {filters}, history {prefix[:k]}: completed {sorted(done)}")
                if twin is not None:
                    ctx.check(twin.dispatcher.current_time() == now, "filter-changes-time", f"filters {filters}, history {prefix[:k]}: {now} vs {twin.dispatcher.current_time()} unfiltered")
                if prev_now is not None:
                    ctx.check(now >= prev_now, "clock-decreased", f"filters {filters}, history {prefix[:k]}: {prev_now} -> {now}")
                    ctx.check(prev_done <= done, "completed-shrank", f"filters {filters}, history {prefix[:k]}")
                prev_now, prev_done = now, done
                if k < len(prefix):
                    j, x = prefix[k]
                    p = m.next[j]
                    drv.dispatch(j, p, x)
                    if twin is not None:
                        twin.dispatch(j, p, x)
            ctx.count("small_scope_nodes")
            if m.complete():
                ctx.check(prev_now == d.schedule.makespan() == m.makespan(), "final-time", f"filters {filters}, history {prefix}: time {prev_now}, makespan {m.makespan()}")
                return
            avail_real = [fp.jp(o) for o in d.available_operations()]
            if not avail_real:
                ctx.fail("deadlock", f"filters {filters}, history {prefix}: nothing available")
            for j, p in avail_real:
                for x in inst["machines"][j][p]:
                    rec(prefix + [(j, x)])

        rec([])
    ctx.count("small_scope_instances")
    ctx.label("mode=small_scope")
    ctx.nontrivial = sum(len(r) for r in inst["durations"]) >= 3


def check_case(case, ctx):
    if case.get("mode") == "small_scope":
        _small_scope(case, ctx)
        return
    inst, filters, history = case["inst"], case["filters"], case["history"]
    drv = Driver(inst, filters)
    twin = Driver(inst, None) if filters else None
    d, m = drv.dispatcher, drv.model
    n = m.n_ops
    big = any(x > 2**24 for r in inst["durations"] for x in r)
    for cfg in case.get("observers", []):
        if not big:  # feature observers hold float32 values
            obs.make_feature_observer(d, cfg)

    def observe(where, pre=0):
        if pre:
            # a client asks for the earliest start of some ready operations
            # before reading the clock
            ready = m.ready()
            sub = [op for i, op in enumerate(ready) if (pre >> i) & 1]
            got = d.min_start_time([drv.op(j, p) for (j, p) in sub])
            ctx.check(
                got == m.min_start(sub),
                "min_start_time",
                f"{where}: min_start_time({sub}) = {got}, expected {m.min_start(sub)}",
            )
        now = d.current_time()
        done = {fp.jp(o) for o in d.completed_operations()}
        avail = m.available(filters)
        want = m.min_start(avail)
        ctx.check(
            now == want,
            "now-vs-model",
            f"{where}: current_time()={now}, model min start over available {avail} = {want}",
        )
        want_done = set(m.completed(now))
        ctx.check(
            done == want_done,
            "completed-vs-model",
            f"{where}: completed {sorted(done)} != {sorted(want_done)} at now={now}",
        )
        if twin is not None:
            tnow = twin.dispatcher.current_time()
            ctx.check(
                tnow == now,
                "filter-changes-time",
                f"{where}: current_time() {now} with filter {filters}, {tnow} without",
            )
        return now, done

    pre = min(case.get("pre", 0), n)
    blind = bool(case.get("blind")) and pre > 0
    if pre:
        # an earlier, abandoned episode on the same dispatcher (and twin)
        from ..lib import ref as _ref

        for k in range(pre):
            if not d.available_operations():
                break
            j, p, mm = drv.choose(k, k, "available")
            drv.dispatch(j, p, mm)
            if twin is not None:
                twin.dispatch(j, p, mm)
        if blind:
            d.current_time()
            d.completed_operations()
        d.reset()
        drv.model = m = _ref(inst)
        if twin is not None:
            twin.dispatcher.reset()
            twin.model = _ref(inst)
        ctx.label("after_reset")
    if blind:
        # the new episode starts with a stretch in which nothing is asked of
        # the dispatcher (operations are picked with the model's help), as
        # long as the abandoned episode was
        now, done = 0, set()
        ctx.label("unobserved_stretch")
    else:
        now, done = observe("initial")
    values = {now}
    unchanged = False
    fork_at = case.get("fork")
    forked = None
    for k in range(n):
        a, b = history[k] if k < len(history) else (0, 0)
        if blind and k < pre:
            cands = m.available(filters) or m.ready()
            j, p = cands[a % len(cands)]
            ms = inst["machines"][j][p]
            mm = ms[b % len(ms)]
        else:
            if not d.available_operations():
                ctx.fail("deadlock", f"step {k}: no available operation but {n - k} unscheduled")
                return
            j, p, mm = drv.choose(a, b, "available")
        if fork_at == k:
            # a planner deep-copies the dispatcher here, looks ahead on the
            # copy (dispatching and querying it) and comes back
            clone, cmodel = fork(d, m)
            disturb(clone, cmodel, inst)
            forked = (clone, cmodel)
            ctx.label("forked")
        drv.dispatch(j, p, mm)
        if twin is not None:
            twin.dispatch(j, p, mm)
        where = f"after dispatch {k} of ({j},{p}) on {mm}"
        if blind and k < pre - 1:
            continue
        now2, done2 = observe(where, pre=(a * 7 + b) % 8 if (a + b) % 3 == 0 else 0)
        ctx.check(now2 >= now, "clock-decreased", f"{where}: {now} -> {now2}")
        ctx.check(
            done <= done2,
            "completed-shrank",
            f"{where}: completed lost {sorted(done - done2)}",
        )
        unchanged |= now2 == now
        values.add(now2)
        now, done = now2, done2
        ctx.count("steps")
    if forked is not None:
        clone, cmodel = forked
        cnow = clone.current_time()
        cavail = cmodel.available(filters)
        ctx.check(
            cnow == cmodel.min_start(cavail),
            "now-vs-model",
            f"deep copy of the dispatcher, after the original went on: current_time()={cnow}, "
            f"model {cmodel.min_start(cavail)} (its own history {cmodel.order})",
        )
        cdone = {fp.jp(o) for o in clone.completed_operations()}
        ctx.check(
            cdone == set(cmodel.completed(cnow)),
            "completed-vs-model",
            f"deep copy of the dispatcher: completed {sorted(cdone)} != {sorted(cmodel.completed(cnow))}",
        )
    mk = d.schedule.makespan()
    rows = fp.schedule_rows(d.schedule)
    ctx.check(
        now == mk == feasible.makespan(rows) == m.makespan(),
        "final-time",
        f"complete: current_time()={now}, makespan()={mk}, max end={feasible.makespan(rows)}",
    )
    ctx.label(*gen.inst_labels(inst))
    ctx.label("filtered" if filters else "unfiltered")
    ctx.nontrivial = len(values) >= 3 and unchanged
