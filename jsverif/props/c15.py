"""C15 - equality means same content."""

from __future__ import annotations

import copy

from hypothesis import strategies as st

from job_shop_lib import JobShopInstance, Schedule, ScheduledOperation
from job_shop_lib.constraint_programming import ORToolsSolver
from job_shop_lib.dispatching import Dispatcher
from job_shop_lib.dispatching.rules import DispatchingRuleSolver

from .. import gen
from .. import fingerprint as fp
from ..lib import build_instance, ref

ID = "C15"
RULE = (
    "Generated: a pool per case: an instance I, an independently rebuilt copy, "
    "from_matrices(**to_dict()) of it, single-field perturbations (one "
    "duration changed, one machine changed, one eligible machine added, an "
    "operation appended / removed, two jobs swapped, the same flat operation "
    "sequence split into jobs differently), schedules built by the dispatcher "
    "from two histories on I, on the copy and on the perturbed instances, a "
    "uniformly delayed copy built with ScheduledOperation(op, start+delta, m), "
    "all operations and scheduled operations of these, instances built with "
    "set_operation_attributes=False from the same flat operation sequence "
    "split in two ways, an instance whose operations were hashed before it "
    "was built, the same schedule content reached through other library paths "
    "(Schedule.from_dict of the JSON text, from_job_sequences, the schedule "
    "returned by DispatchingRuleSolver and by CP-SAT each next to a twin "
    "rebuilt by hand on the independent copy; content installed through the public schedule setter), an instance made by "
    "GeneralInstanceGenerator next to twins built by hand and from JSON, "
    "plus None / int / tuple. Oracle over all ordered pairs and all equal triples: == is "
    "reflexive, symmetric, transitive; True when the strict content "
    "fingerprints are equal (independently built, same content); False when "
    "machines (as sets), durations, job / position, job structure, start time "
    "or assigned machine differ, and across types; != is the negation; equal "
    "operations hash equally. Pairs that differ only in machine-list order, "
    "name or metadata are not asserted. Non-trivial: the pool contains >=3 "
    "perturbations of different kinds that changed the content."
)
BUDGET = {"quick": 300, "thorough": 2000}
ASSUMPTIONS = [
    "an operation's job and position are part of its content ('job structure')",
    "machine-list order, instance name and metadata are left unspecified",
]

PERTS = ["dur", "machine", "add_machine", "append", "remove", "swap", "resplit", "later_machine"]


def strategy(tier):
    big = tier == "thorough"
    inst = gen.instances(
        max_jobs=4, max_ops=4, max_machines=4, max_total=12 if big else 9, with_text=True, big_ok=2
    )
    pert = st.tuples(
        st.integers(0, 7999).map(lambda i: PERTS[i % 8]),
        st.integers(0, 20),
        st.integers(0, 20),
        st.integers(1, 5),
    ).map(list)
    return st.fixed_dictionaries(
        {
            "inst": inst,
            "perts": st.lists(pert, min_size=2, max_size=6),
            "h1": gen.histories(max_len=12),
            "h2": gen.histories(max_len=12),
            "delta": st.integers(1, 4),
            "gen": st.tuples(st.integers(0, 10**4), st.integers(0, 2)).map(list),
        }
    )


def perturb(inst, spec):
    """Returns a perturbed copy of the instance case or None if not applicable
    / not a change."""
    kind, x, y, z = spec
    new = copy.deepcopy(inst)
    d, m = new["durations"], new["machines"]
    n_m = 1 + max(v for row in m for ms in row for v in ms)
    j = x % len(d)
    p = y % len(d[j])
    if kind == "dur":
        d[j][p] += z
    elif kind == "machine":
        old = m[j][p]
        cand = (old[0] + z) % (n_m + 1)
        if cand in old:
            return None
        m[j][p] = [cand] + old[1:]
    elif kind == "add_machine":
        cand = z % (n_m + 1)
        if cand in m[j][p]:
            return None
        m[j][p] = m[j][p] + [cand]
    elif kind == "later_machine":
        # same first machine, same number of alternatives, a different later one
        flex = [(jj, pp) for jj, row in enumerate(m) for pp, ms in enumerate(row) if len(ms) > 1]
        if not flex:
            return None
        j, p = flex[(x + y) % len(flex)]
        old = m[j][p]
        cand = next((c for c in range(z % (n_m + 1), z % (n_m + 1) + n_m + 1) if c % (n_m + 1) not in old), None)
        if cand is None:
            return None
        i = 1 + y % (len(old) - 1)
        m[j][p] = old[:i] + [cand % (n_m + 1)] + old[i + 1 :]
    elif kind == "append":
        d[j].append(z)
        m[j].append([y % n_m])
    elif kind == "remove":
        if len(d[j]) < 2:
            return None
        d[j].pop()
        m[j].pop()
    elif kind == "swap":
        k = (j + 1 + y) % len(d)
        if k == j or (d[j] == d[k] and m[j] == m[k]):
            return None
        d[j], d[k] = d[k], d[j]
        m[j], m[k] = m[k], m[j]
    elif kind == "resplit":
        if len(d) < 2:
            return None
        k = (j + 1) % len(d)
        if k != j + 1 or len(d[j]) < 2:
            return None
        d[k].insert(0, d[j].pop())
        m[k].insert(0, m[j].pop())
    return new


def relaxed_op(o):
    return (o.job_id, o.position_in_job, frozenset(o.machines), o.duration)


def relaxed(obj):
    from job_shop_lib import Operation

    if isinstance(obj, Operation):
        return ("op", relaxed_op(obj))
    if isinstance(obj, ScheduledOperation):
        return ("sop", relaxed_op(obj.operation), obj.start_time, obj.machine_id)
    if isinstance(obj, Schedule):
        return (
            "schedule",
            tuple(
                tuple((relaxed_op(s.operation), s.start_time, s.machine_id) for s in lst)
                for lst in obj.schedule
            ),
        )
    if isinstance(obj, JobShopInstance):
        return ("instance", tuple(tuple(relaxed_op(o) for o in job) for job in obj.jobs))
    return ("other", repr(obj))


def strict(obj):
    from job_shop_lib import Operation

    if isinstance(obj, Operation):
        return ("op", fp.op(obj))
    if isinstance(obj, ScheduledOperation):
        return ("sop", fp.sop(obj))
    if isinstance(obj, Schedule):
        return ("schedule", fp.schedule(obj))
    if isinstance(obj, JobShopInstance):
        return ("instance", tuple(tuple(fp.op(o) for o in job) for job in obj.jobs))
    return ("other", repr(obj))


def run_history(instance, inst, history):
    d = Dispatcher(instance)
    model = ref(inst)
    k = 0
    while not model.complete():
        a, b = history[k] if k < len(history) else (0, 0)
        k += 1
        ready = model.ready()
        j, p = ready[a % len(ready)]
        ms = inst["machines"][j][p]
        mm = ms[b % len(ms)]
        d.dispatch(instance.jobs[j][p], mm)
        model.apply(j, mm)
    return d.schedule


def check_case(case, ctx):
    inst = case["inst"]
    pool = []  # (label, object)
    base = build_instance(inst)
    copy1 = build_instance(inst)
    pool += [("I", base), ("I-rebuilt", copy1)]
    rt = JobShopInstance.from_matrices(**base.to_dict())
    pool.append(("I-from_matrices(to_dict)", rt))
    changed_kinds = set()
    variants = [(inst, base), (inst, copy1)]
    for spec in case["perts"]:
        new = perturb(inst, spec)
        if new is None:
            continue
        obj = build_instance(new)
        pool.append((f"I-{spec[0]}", obj))
        variants.append((new, obj))
        changed_kinds.add(spec[0])
    schedules = []
    for vi, (icase, iobj) in enumerate(variants):
        for hname in ("h1", "h2"):
            s = run_history(iobj, icase, case[hname])
            schedules.append((f"S[{vi},{hname}]", s))
    # delayed copy of the first schedule
    s0 = schedules[0][1]
    delayed = Schedule(
        base,
        [
            [ScheduledOperation(x.operation, x.start_time + case["delta"], x.machine_id) for x in lst]
            for lst in s0.schedule
        ],
    )
    schedules.append(("S-delayed", delayed))
    schedules.append(("S-empty", Schedule(base)))
    # the same content reached through other library paths: the dictionary
    # form / job sequences of a dispatcher-built schedule, and schedules
    # returned by the solvers next to twins rebuilt by hand on the copy
    import json

    flexible = any(len(ms) > 1 for row in inst["machines"] for ms in row)
    huge = max(dd for row in inst["durations"] for dd in row) > 10**6

    def by_hand(sched, target):
        return Schedule(
            target,
            [
                [
                    ScheduledOperation(
                        target.jobs[x.operation.job_id][x.operation.position_in_job], int(x.start_time), int(x.machine_id)
                    )
                    for x in lst
                ]
                for lst in sched.schedule
            ],
        )

    # content installed through the public `schedule` setter: on an empty
    # schedule, and over the content of another complete schedule
    via_setter = Schedule(copy1)
    via_setter.schedule = by_hand(s0, copy1).schedule
    schedules.append(("S-via-setter", via_setter))
    overwritten = by_hand(schedules[1][1], copy1)
    overwritten.schedule = [lst[:1] for lst in by_hand(s0, copy1).schedule]
    schedules.append(("S-prefix-via-setter", overwritten))
    schedules.append(("S-prefix-by-hand", Schedule(base, [lst[:1] for lst in by_hand(s0, base).schedule])))
    if not flexible:
        schedules.append(("S-from_dict(json)", Schedule.from_dict(**json.loads(json.dumps(s0.to_dict())))))
        schedules.append(("S-from_job_sequences", Schedule.from_job_sequences(copy1, [[x.operation.job_id for x in lst] for lst in s0.schedule])))
    rule_sched = DispatchingRuleSolver()(base)
    schedules.append(("S-rule-solver", rule_sched))
    schedules.append(("S-rule-solver-by-hand", by_hand(rule_sched, copy1)))
    if not flexible and not huge and case["delta"] % 2 == 0:
        cp_sched = ORToolsSolver(max_time_in_seconds=30.0)(base)
        schedules.append(("S-cp-sat", cp_sched))
        schedules.append(("S-cp-sat-by-hand", by_hand(cp_sched, copy1)))
        ctx.label("cp_sat_schedule")
    pool += schedules
    for label, s in schedules[:4] + [x for x in schedules if x[0] in ("S-delayed", "S-cp-sat", "S-cp-sat-by-hand", "S-rule-solver")]:
        for lst in s.schedule:
            for x in lst[:3]:
                pool.append((label + "-sop", x))
    for label, i in pool[: 3 + len(case["perts"])]:
        if isinstance(i, JobShopInstance):
            for job in i.jobs:
                for o in job[:3]:
                    pool.append((label + "-op", o))
    # instances built with the public option set_operation_attributes=False
    # (operation attributes stay at -1): the same flat operation sequence
    # split into jobs in two ways, plus an identically split copy
    from job_shop_lib import Operation as _Op

    flat = [(list(ms), dd) for row_m, row_d in zip(inst["machines"], inst["durations"]) for ms, dd in zip(row_m, row_d)]
    if len(flat) >= 3:
        def raw(split):
            ops = [_Op(list(ms), dd) for ms, dd in flat]
            return JobShopInstance([ops[:split], ops[split:]], set_operation_attributes=False)

        pool.append(("raw-split1", raw(1)))
        pool.append(("raw-split1-copy", raw(1)))
        pool.append(("raw-split2", raw(2)))
    # operations hashed BEFORE they are placed in an instance (e.g. used as
    # dictionary keys while the jobs are assembled)
    early_jobs = []
    for row_m, row_d in zip(inst["machines"], inst["durations"]):
        job = [_Op(list(ms), dd) for ms, dd in zip(row_m, row_d)]
        for o in job:
            hash(o)
        early_jobs.append(job)
    early = JobShopInstance(early_jobs, name=inst["name"])
    pool.append(("I-hashed-early", early))
    for job in early.jobs:
        for o in job[:3]:
            pool.append(("I-hashed-early-op", o))
    # user subclasses (the docstrings recommend subclassing to add attributes)
    class MyInstance(JobShopInstance):
        pass

    class DueDateOperation(_Op):
        __slots__ = ("due_date",)

        def __init__(self, machines, duration, due_date=0):
            super().__init__(machines, duration)
            self.due_date = due_date

    pool.append(("I-subclass", MyInstance.from_matrices(**base.to_dict())))
    sub_jobs = [
        [DueDateOperation(list(ms), dd, due_date=7) for ms, dd in zip(row_m, row_d)]
        for row_m, row_d in zip(inst["machines"], inst["durations"])
    ]
    sub_inst = JobShopInstance(sub_jobs, name=inst["name"])
    pool.append(("I-slotted-ops", sub_inst))
    longer = [
        [DueDateOperation(list(ms), dd + 1, due_date=7) for ms, dd in zip(row_m, row_d)]
        for row_m, row_d in zip(inst["machines"], inst["durations"])
    ]
    pool.append(("I-slotted-ops-longer", JobShopInstance(longer, name=inst["name"])))
    for o in sub_inst.jobs[0][:2]:
        pool.append(("I-slotted-ops-op", o))
    # an instance made by the library's generator next to twins built by
    # hand and from the JSON text of its dictionary form
    from job_shop_lib.generation import GeneralInstanceGenerator

    g_seed, g_flex = case.get("gen", [0, 0])
    generated = GeneralInstanceGenerator(
        num_jobs=(2, 3),
        num_machines=(2, 3),
        duration_range=(1, 9),
        machines_per_operation=(1, 2) if g_flex == 1 else (2, 2) if g_flex == 2 else 1,
        allow_recirculation=bool(g_seed % 2),
        seed=g_seed,
    ).generate()
    twin = JobShopInstance(
        [[_Op([int(x) for x in o.machines], int(o.duration)) for o in job] for job in generated.jobs],
        name=generated.name,
    )
    pool.append(("G-generated", generated))
    pool.append(("G-by-hand", twin))
    pool.append(("G-from-json", JobShopInstance.from_matrices(**json.loads(json.dumps(generated.to_dict())))))
    for label, i in pool[-3:]:
        for o in i.jobs[0][:2] + i.jobs[-1][-1:]:
            pool.append((label + "-op", o))
    # operations never attached to an instance
    pool.append(("loose-op-a", _Op([0], 3)))
    pool.append(("loose-op-b", _Op([0], 3)))
    pool.append(("loose-op-c", _Op([0], 4)))
    pool += [("None", None), ("int", 3), ("tuple", (1, 2))]
    keys = [(strict(o), relaxed(o)) for (_l, o) in pool]
    n = len(pool)
    eq = [[None] * n for _ in range(n)]
    for a in range(n):
        for b in range(n):
            la, oa = pool[a]
            lb, ob = pool[b]
            if oa is None or isinstance(oa, (int, tuple)):
                if ob is None or isinstance(ob, (int, tuple)):
                    continue
            r = oa == ob
            ne = oa != ob
            ctx.check(
                isinstance(r, bool) and isinstance(ne, bool) and r == (not ne),
                "ne-is-negation",
                f"{la} == {lb} gives {r!r}, != gives {ne!r}",
            )
            eq[a][b] = r
            sa, ra = keys[a]
            sb, rb = keys[b]
            if a == b:
                ctx.check(r, "reflexive", f"{la} != itself")
            if sa == sb:
                ctx.check(r, "same-content-unequal", f"{la} == {lb} is False although content is identical: {sa}")
            elif ra != rb:
                ctx.check(
                    not r,
                    "different-content-equal",
                    f"{la} == {lb} is True although content differs: {ra} vs {rb}",
                )
            ctx.count("pairs")
    from job_shop_lib import Operation

    for a in range(n):
        for b in range(n):
            if eq[a][b] is None:
                continue
            if eq[b][a] is not None:
                ctx.check(eq[a][b] == eq[b][a], "symmetric", f"{pool[a][0]} == {pool[b][0]} is {eq[a][b]} but reversed is {eq[b][a]}")
            if eq[a][b] and isinstance(pool[a][1], Operation) and isinstance(pool[b][1], Operation):
                ctx.check(
                    hash(pool[a][1]) == hash(pool[b][1]),
                    "hash",
                    f"equal operations {pool[a][0]} and {pool[b][0]} hash differently",
                )
            if eq[a][b]:
                for c in range(n):
                    if eq[b][c] and eq[a][c] is not None:
                        ctx.check(
                            eq[a][c],
                            "transitive",
                            f"{pool[a][0]} == {pool[b][0]} == {pool[c][0]} but first != last",
                        )
    ctx.label(*gen.inst_labels(inst))
    ctx.label(*["pert=" + k for k in changed_kinds])
    ctx.nontrivial = len(changed_kinds) >= 3
