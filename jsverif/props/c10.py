"""C10 - observers see every dispatch once, in order, after it took effect."""

from __future__ import annotations

from hypothesis import strategies as st

from job_shop_lib.dispatching import (
    Dispatcher,
    DispatcherObserver,
    HistoryObserver,
    UnscheduledOperationsObserver,
)
from job_shop_lib.exceptions import ValidationError

from .. import gen, obs
from .. import fingerprint as fp
from ..lib import build_filter, build_instance, ref

ID = "C10"
RULE = (
    "Generated: instance x optional filter x event list (<=60) over {valid "
    "dispatch, rejected dispatch, reset, create a recording observer "
    "(subscribed or subscribe=False; two non-singleton classes, one a subclass "
    "of the other) or a built-in feature observer / composite (several of one "
    "type), unsubscribe one, re-subscribe one, create a HistoryObserver "
    "/ UnscheduledOperationsObserver (singletons, possibly a second time), "
    "create_or_get_observer(type, condition), plan: a recorder unsubscribes "
    "itself or another one from inside its k-th callback, optionally subscribing a replacement in the same callback}; one recorder class is log-like (it has a length and is falsy while empty). Oracle: a model of the "
    "subscriber list predicts for every event exactly which observers are "
    "called, in which order, how often and with which argument; inside every "
    "update callback a snapshot of the dispatcher (tracking vectors, schedule, "
    "all queries) is taken and must equal the independent model's post-state "
    "and the snapshot taken after dispatch() returned (caches warmed before "
    "each dispatch so stale cache entries would show); HistoryObserver.history "
    "== dispatches since it was created / last reset; a second instance of a "
    "subscribed singleton type raises ValidationError and changes nothing; "
    "create_or_get returns the first matching subscriber (identity) or a new "
    "subscribed instance. Non-trivial: >=2 recording observers with different "
    "subscription intervals, >=1 reset and >=1 rejected dispatch between "
    "accepted ones."
)
BUDGET = {"quick": 600, "thorough": 8000}
ASSUMPTIONS = [
    "create_or_get_observer for a singleton type whose existing instance fails the condition must raise (follows from 'a singleton type cannot be subscribed twice')",
]

LOG = []


class Recorder(DispatcherObserver):
    _is_singleton = False
    is_recorder = True

    def __init__(self, dispatcher, *, subscribe=True, tag=0):
        super().__init__(dispatcher, subscribe=subscribe)
        self.tag = tag
        self.calls = 0
        self.quit_at = None  # unsubscribe `victim` during the quit_at-th callback
        self.victim = None
        self.swap_in = None  # ... and subscribe this observer in the same callback
        self.updates_since_reset = 0

    def _maybe_unsubscribe(self):
        self.calls += 1
        if self.quit_at is not None and self.calls == self.quit_at:
            target = self.victim if self.victim is not None else self
            if any(target is s for s in self.dispatcher.subscribers):
                self.dispatcher.unsubscribe(target)
            if self.swap_in is not None and not any(self.swap_in is s for s in self.dispatcher.subscribers):
                self.dispatcher.subscribe(self.swap_in)

    def update(self, scheduled_operation):
        self.updates_since_reset += 1
        LOG.append(
            (
                id(self),
                "update",
                fp.sop(scheduled_operation),
                obs.dispatcher_snapshot(self.dispatcher),
            )
        )
        self._maybe_unsubscribe()

    def reset(self):
        self.updates_since_reset = 0
        LOG.append((id(self), "reset", None, None))
        self._maybe_unsubscribe()


class TimedHistoryObserver(HistoryObserver):
    """A user subclass of a singleton observer type."""


class SubRecorder(Recorder):
    """A log-like observer: it has a length (the number of dispatches seen
    since the last reset), so it is falsy while its log is empty."""

    def __len__(self):
        return self.updates_since_reset


def _rec_feature_class():
    from job_shop_lib.dispatching.feature_observers import FeatureObserver

    class RecFeature(FeatureObserver):
        """A recording feature observer (can be a component of a composite)."""

        is_recorder = True
        quit_at = None
        victim = None
        tag = -1

        def update(self, scheduled_operation):
            LOG.append((id(self), "update", fp.sop(scheduled_operation), obs.dispatcher_snapshot(self.dispatcher)))

        def reset(self):
            LOG.append((id(self), "reset", None, None))

    return RecFeature


RecFeature = _rec_feature_class()


def strategy(tier):
    big = tier == "thorough"
    inst = gen.instances(max_jobs=4, max_ops=5, max_machines=4, max_total=20 if big else 14)
    ev = gen.weighted(
        (8, st.tuples(st.just("d"), st.integers(0, 7), st.integers(0, 5)).map(list)),
        (2, st.tuples(st.just("x"), st.integers(0, 1), st.integers(0, 20)).map(list)),
        (1, st.just(["r"])),
        (3, st.tuples(st.just("new"), st.booleans(), st.integers(0, 1), st.integers(0, 2)).map(list)),
        (2, st.tuples(st.just("unsub"), st.integers(0, 9)).map(list)),
        (2, st.tuples(st.just("sub"), st.integers(0, 9)).map(list)),
        (2, st.tuples(st.just("singleton"), st.integers(0, 1), st.booleans()).map(list)),
        (3, st.tuples(st.just("cog"), st.integers(0, 3), st.integers(0, 4)).map(list)),
        (3, st.tuples(st.just("builtin"), st.integers(0, 5), st.booleans()).map(list)),
        (3, st.tuples(st.just("plan"), st.integers(0, 9), st.integers(1, 3), st.integers(0, 9), st.integers(0, 2)).map(list)),
    )
    return st.fixed_dictionaries(
        {
            "inst": inst,
            "filters": gen.filter_configs(max_len=2),
            "events": gen.sized_lists(ev, 60),
        }
    )


def check_case(case, ctx):
    inst, events = case["inst"], case["events"]
    instance = build_instance(inst)
    d = Dispatcher(instance, build_filter(case["filters"]))
    model = ref(inst)
    del LOG[:]
    created = []  # all recorders ever created (objects)
    builtins = []  # built-in feature observers / composites created by events
    expected_subs = []  # model of d.subscribers (objects, in order)
    hist = None  # (observer, expected history list)
    intervals = {}
    n_resets = n_rejected_between = 0
    accepted = 0
    rejected_after_accept = False

    def subs_ok(where):
        ctx.check(
            len(d.subscribers) == len(expected_subs)
            and all(a is b for a, b in zip(d.subscribers, expected_subs)),
            "subscriber-list",
            f"{where}: subscribers {[type(s).__name__ for s in d.subscribers]} expected "
            f"{[type(s).__name__ for s in expected_subs]}",
        )

    def history_ok(where):
        if hist is not None:
            ctx.check(
                [fp.sop(s) for s in hist[0].history] == hist[1],
                "history-observer",
                f"{where}: HistoryObserver.history {[fp.sop(s) for s in hist[0].history]} expected {hist[1]}",
            )

    model_calls = {}

    def round_expectation(what, arg):
        """Simulates one notification round on the model of the subscriber
        list: every observer subscribed at the start is notified once, in
        order, unless it was unsubscribed before its turn; planned
        unsubscriptions inside callbacks take effect immediately."""
        want = []
        for o in list(expected_subs):
            if not any(o is x for x in expected_subs):
                continue
            if getattr(o, "is_recorder", False):
                want.append((id(o), what, arg))
                model_calls[id(o)] = model_calls.get(id(o), 0) + 1
                if getattr(o, "quit_at", None) is not None and model_calls[id(o)] == o.quit_at:
                    target = o.victim if o.victim is not None else o
                    expected_subs[:] = [x for x in expected_subs if x is not target]
                    if getattr(o, "swap_in", None) is not None and not any(o.swap_in is x for x in expected_subs):
                        # subscribed during the round: notified from the next one on
                        expected_subs.append(o.swap_in)
        return want

    for idx, ev in enumerate(events):
        where = f"event {idx} {ev}"
        del LOG[:]
        kind = ev[0]
        if kind == "d":
            if model.complete():
                continue
            obs.dispatcher_snapshot(d)  # warm every cache
            hist_was_subscribed = hist is not None and any(hist[0] is x for x in expected_subs)
            ready = model.ready()
            j, p = ready[ev[1] % len(ready)]
            ms = inst["machines"][j][p]
            m = ms[ev[2] % len(ms)]
            d.dispatch(instance.jobs[j][p], m)
            s, _e = model.apply(j, m)
            accepted += 1
            want_sop = (fp.op(instance.jobs[j][p]), s, m)
            after = obs.dispatcher_snapshot(d)
            recs = [x for x in expected_subs if getattr(x, "is_recorder", False)]
            got = [(e[0], e[1], e[2]) for e in LOG]
            want = round_expectation("update", want_sop)
            ctx.check(
                got == want,
                "notifications",
                f"{where}: recorders got {[(g[1], g[2]) for g in got]} (ids in order {[g[0] for g in got]}), "
                f"expected one update{want_sop} each for {len(recs)} subscribed recorders in subscription order",
            )
            for e in LOG:
                inside = e[3]
                # (entry 6 is the subscriber list, which callbacks may change)
                ctx.check(
                    inside[:6] + inside[7:] == after[:6] + after[7:],
                    "pre-state-visible",
                    f"{where}: dispatcher as seen inside update() differs from its state after dispatch(): "
                    f"{obs.diff_snapshots(inside, after)}",
                )
                ctx.check(
                    list(inside[2]) == model.next
                    and want_sop in inside[3][m]
                    and inside[3][m][-1] == want_sop,
                    "post-state-in-callback",
                    f"{where}: inside update() next indices {inside[2]} (model {model.next}), machine list {inside[3][m]}",
                )
                # cached queries as seen from inside the callback vs the model
                ctx.check(
                    list(inside[9]) == model.ready()
                    and list(inside[10]) == sorted(model.unscheduled())
                    and list(inside[11]) == sorted(model.scheduled()),
                    "stale-queries-in-callback",
                    f"{where}: inside update() raw ready {inside[9]}, unscheduled {inside[10]}, scheduled {inside[11]}; "
                    f"model ready {model.ready()}, scheduled {sorted(model.scheduled())}",
                )
            if hist is not None and hist_was_subscribed:
                hist[1].append(want_sop)
            for x in recs:
                intervals.setdefault(id(x), []).append(accepted)
        elif kind == "x":
            before = obs.dispatcher_snapshot(d)
            later = [(j, p) for (j, p) in model.unscheduled() if p > model.next[j]]
            sched = model.scheduled()
            pool = later if ev[1] == 0 else sched
            if not pool:
                continue
            j, p = pool[ev[2] % len(pool)]
            try:
                d.dispatch(instance.jobs[j][p], inst["machines"][j][p][0])
            except Exception:  # pylint: disable=broad-except
                pass
            else:
                ctx.fail("rejected-accepted", f"{where}: dispatch of non-ready ({j},{p}) was accepted")
            ctx.check(not LOG, "rejected-notified", f"{where}: rejected dispatch notified {len(LOG)} observers")
            ctx.check(before == obs.dispatcher_snapshot(d), "rejected-changed", f"{where}: state changed")
            if accepted:
                rejected_after_accept = True
        elif kind == "r":
            d.reset()
            model = ref(inst)
            got = [(e[0], e[1]) for e in LOG]
            want = [(a, b) for (a, b, _c) in round_expectation("reset", None)]
            ctx.check(got == want, "reset-notifications", f"{where}: got {got} expected {want}")
            if hist is not None and any(hist[0] is x for x in expected_subs):
                del hist[1][:]
            n_resets += 1
            if rejected_after_accept:
                n_rejected_between += 1
        elif kind == "new":
            cls = SubRecorder if ev[2] else Recorder
            o = cls(d, subscribe=ev[1], tag=ev[3])
            created.append(o)
            intervals[id(o)] = []
            if ev[1]:
                expected_subs.append(o)
        elif kind == "builtin":
            # built-in non-singleton observers, several of the same type
            from job_shop_lib.dispatching.feature_observers import (
                CompositeFeatureObserver,
                DurationObserver,
                FeatureType,
                IsReadyObserver,
                RemainingOperationsObserver,
            )

            which = ev[1]
            if which == 0:
                o = RemainingOperationsObserver(d, subscribe=ev[2])
            elif which == 1:
                o = DurationObserver(d, subscribe=ev[2], feature_types=[FeatureType.JOBS])
            elif which == 2:
                o = IsReadyObserver(d, subscribe=ev[2])
            elif which == 3:
                o = RemainingOperationsObserver(d, subscribe=ev[2], feature_types=[FeatureType.JOBS])
            elif which == 5:
                o = RecFeature(d, subscribe=ev[2], feature_types=[FeatureType.JOBS])
                created.append(o)
                intervals[id(o)] = []
            else:
                kids = [x for x in builtins if not isinstance(x, CompositeFeatureObserver)]
                o = CompositeFeatureObserver(d, subscribe=ev[2], feature_observers=kids[-2:])
            builtins.append(o)
            if ev[2]:
                expected_subs.append(o)
        elif kind == "plan":
            cands = [x for x in created if isinstance(x, Recorder)]
            if not cands:
                continue
            o = cands[ev[1] % len(cands)]
            if o.quit_at is not None:
                continue
            vict = cands[ev[3] % len(cands)]
            o.victim = None if vict is o else vict
            o.quit_at = model_calls.get(id(o), 0) + ev[2]
            if len(ev) > 4 and ev[4]:
                # ... and a replacement is subscribed in the same callback
                rep = (SubRecorder if ev[4] == 2 else Recorder)(d, subscribe=False, tag=ev[4])
                created.append(rep)
                intervals[id(rep)] = []
                o.swap_in = rep
            # keep the real counter aligned with the model's
            o.calls = model_calls.get(id(o), 0)
        elif kind == "unsub":
            cands = [x for x in expected_subs if isinstance(x, Recorder)] + [
                x for x in expected_subs if any(x is b for b in builtins)
            ]
            if hist is not None and any(hist[0] is x for x in expected_subs):
                cands.append(hist[0])
            if not cands:
                continue
            o = cands[ev[1] % len(cands)]
            d.unsubscribe(o)
            expected_subs[:] = [x for x in expected_subs if x is not o]
        elif kind == "sub":
            pool_ = []
            for x in created + builtins + ([hist[0]] if hist is not None else []):
                if not any(x is y for y in pool_):
                    pool_.append(x)
            cands = [x for x in pool_ if not any(x is y for y in expected_subs)]
            if not cands:
                continue
            o = cands[ev[1] % len(cands)]
            d.subscribe(o)
            expected_subs.append(o)
        elif kind == "singleton":
            cls = HistoryObserver if ev[1] == 0 else UnscheduledOperationsObserver
            if ev[1] == 0 and idx % 3 == 0:
                cls = TimedHistoryObserver
            # (the documented rule: refused if an instance of this class - or
            # of a subclass of it - is subscribed)
            exists = any(isinstance(x, cls) for x in expected_subs)
            try:
                o = cls(d, subscribe=ev[2])
            except ValidationError:
                ctx.check(exists, "singleton-spurious", f"{where}: ValidationError although no {cls.__name__} is subscribed")
            else:
                ctx.check(
                    not exists,
                    "singleton-twice",
                    f"{where}: a second {cls.__name__} was constructed while one is subscribed",
                )
                if ev[2]:
                    expected_subs.append(o)
                    if issubclass(cls, HistoryObserver) and hist is None:
                        hist = (o, [])
        elif kind == "cog":
            typ = [Recorder, SubRecorder, HistoryObserver, UnscheduledOperationsObserver][ev[1]]
            tag = ev[2]
            if tag == 3:
                cond = lambda o: True
            elif tag == 4:
                cond = lambda o: False
            else:
                cond = lambda o, t=tag: getattr(o, "tag", None) == t
            match = None
            for x in expected_subs:
                if isinstance(x, typ) and cond(x):
                    match = x
                    break
            kwargs = {"tag": tag} if issubclass(typ, Recorder) and tag < 3 else {}
            detached = bool(kwargs) and tag == 2 and idx % 2 == 0
            if detached:
                # the documented **kwargs reach the constructor: a new observer
                # asked for with subscribe=False stays unsubscribed
                kwargs["subscribe"] = False
            singleton_clash = match is None and not issubclass(typ, Recorder) and any(
                isinstance(x, typ) for x in expected_subs
            )
            try:
                got = d.create_or_get_observer(typ, cond, **kwargs)
            except ValidationError:
                ctx.check(
                    singleton_clash,
                    "create-or-get-raised",
                    f"{where}: ValidationError without a singleton clash",
                )
            else:
                ctx.check(
                    not singleton_clash,
                    "singleton-twice",
                    f"{where}: create_or_get_observer created a second {typ.__name__}",
                )
                if match is not None:
                    ctx.check(
                        got is match,
                        "create-or-get-existing",
                        f"{where}: did not return the first matching subscribed observer",
                    )
                else:
                    ctx.check(
                        isinstance(got, typ) and not any(got is x for x in expected_subs),
                        "create-or-get-new",
                        f"{where}: expected a new {typ.__name__}",
                    )
                    if not detached:
                        expected_subs.append(got)
                    if isinstance(got, Recorder):
                        created.append(got)
                        intervals[id(got)] = []
                    if typ is HistoryObserver and hist is None:
                        hist = (got, [])
            ctx.count("create_or_get")
        subs_ok(where)
        history_ok(where)
        ctx.count("events")
    # epilogue: the history observer sits out a reset and the replay of the
    # episode's prefix, is subscribed again and sees the episode's last
    # dispatch a second time (same operation, start and machine as the last
    # entry it holds): every dispatch it is notified of is recorded
    if hist is not None and any(hist[0] is x for x in expected_subs) and model.order:
        seq = [(j, p, m) for (j, p, m, _s, _e) in model.order]
        d.unsubscribe(hist[0])
        d.reset()
        model = ref(inst)
        for j, p, m in seq[:-1]:
            d.dispatch(instance.jobs[j][p], m)
            model.apply(j, m)
        d.subscribe(hist[0])
        j, p, m = seq[-1]
        d.dispatch(instance.jobs[j][p], m)
        s_, _e = model.apply(j, m)
        hist[1].append((fp.op(instance.jobs[j][p]), s_, m))
        history_ok("epilogue (history observer re-subscribed after sitting out a reset)")
        ctx.count("epilogues")
    distinct_intervals = {tuple(v) for v in intervals.values() if v}
    ctx.label(*gen.inst_labels(inst))
    ctx.nontrivial = (
        len(distinct_intervals) >= 2 and n_resets >= 1 and rejected_after_accept
    )
