"""Observer construction from plain-data configs and deep snapshots of the
public state of dispatchers, observers, graphs and environments."""

from __future__ import annotations

import numpy as np

from job_shop_lib.dispatching import (
    DispatcherObserverConfig,
    HistoryObserver,
    UnscheduledOperationsObserver,
)
from job_shop_lib.dispatching.feature_observers import (
    CompositeFeatureObserver,
    DurationObserver,
    EarliestStartTimeObserver,
    FeatureObserver,
    FeatureObserverType,
    FeatureType,
    IsCompletedObserver,
    IsReadyObserver,
    IsScheduledObserver,
    PositionInJobObserver,
    RemainingOperationsObserver,
    feature_observer_factory,
)
from job_shop_lib.graphs import (
    build_agent_task_graph,
    build_agent_task_graph_with_jobs,
    build_complete_agent_task_graph,
    build_disjunctive_graph,
)
from job_shop_lib.graphs.graph_updaters import GraphUpdater, ResidualGraphUpdater
from job_shop_lib.reinforcement_learning import (
    IdleTimeReward,
    MakespanReward,
    RewardObserver,
)

from hypothesis import strategies as st

from . import fingerprint as fp

KINDS = [
    "is_ready",
    "earliest_start_time",
    "duration",
    "is_scheduled",
    "position_in_job",
    "remaining_operations",
    "is_completed",
]
CLASSES = {
    "is_ready": IsReadyObserver,
    "earliest_start_time": EarliestStartTimeObserver,
    "duration": DurationObserver,
    "is_scheduled": IsScheduledObserver,
    "position_in_job": PositionInJobObserver,
    "remaining_operations": RemainingOperationsObserver,
    "is_completed": IsCompletedObserver,
}
SUPPORTED = {
    "is_ready": ["operations", "machines", "jobs"],
    "earliest_start_time": ["operations", "machines", "jobs"],
    "duration": ["operations", "machines", "jobs"],
    "is_scheduled": ["operations", "machines", "jobs"],
    "position_in_job": ["operations"],
    "remaining_operations": ["machines", "jobs"],
    "is_completed": ["operations", "machines", "jobs"],
}
BUILDERS = {
    "disjunctive": build_disjunctive_graph,
    "agent_task": build_agent_task_graph,
    "agent_task_with_jobs": build_agent_task_graph_with_jobs,
    "complete_agent_task": build_complete_agent_task_graph,
}
REWARDS = {"makespan": MakespanReward, "idle": IdleTimeReward}


def feature_configs(min_size=1, max_size=5, unique=False):
    """Strategy: list of [kind, feature_types or None, spelling 0..2]."""

    @st.composite
    def one(draw):
        kind = draw(st.integers(0, 6999).map(lambda i: KINDS[i % 7]))
        sup = SUPPORTED[kind]
        ft = draw(
            st.one_of(
                st.none(),
                st.lists(st.sampled_from(sup), min_size=1, max_size=len(sup), unique=True),
            )
        )
        return [kind, ft, draw(st.integers(0, 2))]

    if unique:
        return st.lists(one(), min_size=min_size, max_size=max_size, unique_by=lambda c: c[0])
    return st.lists(one(), min_size=min_size, max_size=max_size)


def observer_type(kind, spelling):
    if spelling == 0:
        return FeatureObserverType(kind)
    if spelling == 1:
        return kind
    return CLASSES[kind]


def feature_types_arg(ft, spelling=0):
    if ft is None:
        return None
    if len(ft) == 1 and spelling == 1:
        return FeatureType(ft[0])  # a single FeatureType is an accepted spelling
    return [FeatureType(x) for x in ft]


def make_feature_observer(dispatcher, cfg):
    kind, ft, spelling = cfg
    kwargs = {}
    if ft is not None:
        kwargs["feature_types"] = feature_types_arg(ft, spelling)
    return feature_observer_factory(
        observer_type(kind, spelling), dispatcher=dispatcher, **kwargs
    )


def observer_config(cfg):
    """DispatcherObserverConfig for the environments."""
    kind, ft, spelling = cfg
    kwargs = {}
    if ft is not None:
        kwargs["feature_types"] = feature_types_arg(ft, spelling)
    return DispatcherObserverConfig(observer_type(kind, spelling), kwargs=kwargs)


def expected_feature_types(cfg):
    return list(cfg[1]) if cfg[1] is not None else list(SUPPORTED[cfg[0]])


# ---------------------------------------------------------------- snapshots


def arr(a):
    a = np.asarray(a)
    return (a.shape, str(a.dtype), a.tobytes())


def graph_snapshot(g):
    nodes = []
    for n in g.nodes:
        t = n.node_type.name
        if t == "OPERATION":
            ident = fp.op(n.operation)
        elif t == "MACHINE":
            ident = n.machine_id
        elif t == "JOB":
            ident = n.job_id
        else:
            ident = None
        nodes.append((n.node_id, t, ident))
    edges = sorted(
        (u, v, repr(sorted((k, repr(val)) for k, val in data.items())))
        for u, v, data in g.graph.edges(data=True)
    )
    return (
        tuple(nodes),
        tuple(bool(x) for x in g.removed_nodes),
        tuple(sorted(g.graph.nodes)),
        tuple(edges),
    )


def observer_snapshot(o):
    """Public state of one built-in observer."""
    out = [type(o).__name__]
    if isinstance(o, FeatureObserver):
        out.append(
            tuple(sorted((ft.value, arr(a)) for ft, a in o.features.items()))
        )
        if isinstance(o, CompositeFeatureObserver):
            out.append(
                tuple(sorted((ft.value, tuple(v)) for ft, v in o.column_names.items()))
            )
        if isinstance(o, EarliestStartTimeObserver):
            out.append(arr(o.earliest_start_times))
        if isinstance(o, IsCompletedObserver):
            out.append(
                (
                    tuple(np.asarray(o.remaining_ops_per_job).ravel().tolist()),
                    tuple(np.asarray(o.remaining_ops_per_machine).ravel().tolist()),
                )
            )
    elif isinstance(o, HistoryObserver):
        out.append(tuple(fp.sop(s) for s in o.history))
    elif isinstance(o, UnscheduledOperationsObserver):
        out.append(
            tuple(tuple(fp.op(x) for x in dq) for dq in o.unscheduled_operations_per_job)
        )
    elif isinstance(o, RewardObserver):
        out.append(tuple(o.rewards))
        if isinstance(o, MakespanReward):
            out.append(o.current_makespan)
    elif isinstance(o, GraphUpdater):
        out.append(graph_snapshot(o.job_shop_graph))
    return tuple(out)


def dispatcher_snapshot(d, queries=True):
    out = [
        tuple(d.machine_next_available_time),
        tuple(d.job_next_available_time),
        tuple(d.job_next_operation_index),
        fp.schedule(d.schedule),
        d.schedule.num_scheduled_operations,
        d.schedule.is_complete(),
        tuple(type(s).__name__ for s in d.subscribers),
    ]
    if queries:
        out.extend(
            [
                d.current_time(),
                tuple(fp.jp(o) for o in d.available_operations()),
                tuple(fp.jp(o) for o in d.raw_ready_operations()),
                tuple(sorted(fp.jp(o) for o in d.unscheduled_operations())),
                tuple(sorted(fp.jp(o) for o in d.scheduled_operations())),
                tuple(sorted(fp.jp(o) for o in d.uncompleted_operations())),
                tuple(sorted(fp.jp(o) for o in d.completed_operations())),
                tuple(sorted(fp.sop(s) for s in d.ongoing_operations())),
                tuple(sorted(d.available_machines())),
                tuple(sorted(d.available_jobs())),
            ]
        )
    return tuple(out)


def full_snapshot(d, queries=True):
    """Dispatcher + every subscribed observer."""
    return (
        dispatcher_snapshot(d, queries),
        tuple(observer_snapshot(o) for o in d.subscribers),
    )


def obs_snapshot(obs):
    """Snapshot of an environment observation dict."""
    return tuple(sorted((k, arr(v)) for k, v in obs.items()))


def diff_snapshots(a, b, path="snapshot"):
    """First difference between two nested tuples, as a readable string."""
    if type(a) is not type(b):
        return f"{path}: type {type(a).__name__} vs {type(b).__name__}"
    if isinstance(a, tuple):
        if len(a) == 3 and isinstance(a[0], tuple) and isinstance(a[2], bytes) and isinstance(b[2], bytes):
            if a != b:
                try:
                    x = np.frombuffer(a[2], dtype=a[1]).reshape(a[0])
                    y = np.frombuffer(b[2], dtype=b[1]).reshape(b[0])
                    return f"{path}: array {x.tolist()} vs {y.tolist()}"
                except Exception:  # pylint: disable=broad-except
                    return f"{path}: arrays differ (shape/dtype {a[:2]} vs {b[:2]})"
            return None
        if len(a) != len(b):
            return f"{path}: length {len(a)} vs {len(b)}: {str(a)[:300]} vs {str(b)[:300]}"
        for i, (x, y) in enumerate(zip(a, b)):
            r = diff_snapshots(x, y, f"{path}[{i}]")
            if r:
                return r
        return None
    if a != b:
        return f"{path}: {str(a)[:300]} vs {str(b)[:300]}"
    return None
