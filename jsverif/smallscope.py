"""Small-scope exhaustive enumeration (thorough tier of C01, C02, C06, C07).

Domain: every instance whose job lengths are one of (1) (2) (3) (1,1) (1,2)
(2,1) (2,2) (1,1,1) (1,1,2) (1,2,1) (2,1,1), eligible machines any non-empty
subset of {0, 1} (the two orders of the two-machine list are not distinguished),
durations in {0, 1, 3}; 29 331 instances; for each, EVERY
dispatch history (all interleavings x all machine choices, every prefix).  The
instance list is split among the worker processes; each property supplies the
per-node oracle.  This is complete for the stated finite domain (small-scope
hypothesis: most defects have small witnesses) and says nothing beyond it.
"""

from __future__ import annotations

import itertools

from .lib import build_instance, ref

DURATIONS = (0, 1, 3)
MACHINE_SETS = ([0], [1], [0, 1])
SHAPES = ((1,), (2,), (3,), (1, 1), (1, 2), (2, 1), (2, 2), (1, 1, 1), (1, 1, 2), (1, 2, 1), (2, 1, 1))
DESCRIPTION = (
    "small-scope exhaustive: all 29331 instances with job lengths (1) (2) (3) "
    "(1,1) (1,2) (2,1) (2,2) (1,1,1) (1,1,2) (1,2,1) (2,1,1), machine sets in "
    "{[0],[1],[0,1]}, durations in {0,1,3}, and for each every dispatch history "
    "(all interleavings x machine choices), every prefix"
)


def all_instances(positive_only=False):
    durs = tuple(d for d in DURATIONS if d > 0 or not positive_only)
    ops = [(list(ms), d) for ms in MACHINE_SETS for d in durs]
    for shape in SHAPES:
        n = sum(shape)
        for combo in itertools.product(ops, repeat=n):
            it = iter(combo)
            durations, machines = [], []
            for ln in shape:
                row = [next(it) for _ in range(ln)]
                machines.append([list(ms) for ms, _d in row])
                durations.append([d for _ms, d in row])
            yield {
                "durations": durations,
                "machines": machines,
                "name": "S",
                "meta": {},
                "ints": False,
                "family": "small_scope",
            }


def shard(index, n, positive_only=False):
    for k, inst in enumerate(all_instances(positive_only)):
        if k % n == index:
            yield inst


def all_prefixes(inst):
    """Every non-empty dispatch history prefix [(job, machine), ...]."""
    out = []

    def rec(prefix):
        m = ref(inst)
        for j, x in prefix:
            m.apply(j, x)
        for j, p in m.ready():
            for x in inst["machines"][j][p]:
                new = prefix + [(j, x)]
                out.append(new)
                rec(new)

    rec([])
    return out


def replay(inst, instance, prefix, dispatcher):
    """Applies prefix to a real dispatcher and a fresh model; returns model."""
    m = ref(inst)
    for j, x in prefix:
        dispatcher.dispatch(instance.jobs[j][m.next[j]], x)
        m.apply(j, x)
    return m


__all__ = ["all_instances", "shard", "all_prefixes", "replay", "build_instance", "DESCRIPTION"]
