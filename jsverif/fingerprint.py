"""Content fingerprints of library objects as tuples of plain values.
Never uses the library's ``==`` (the subject of C15)."""

from __future__ import annotations


def op(o):
    return (
        o.job_id,
        o.position_in_job,
        o.operation_id,
        tuple(o.machines),
        o.duration,
    )


def jp(o):
    return (o.job_id, o.position_in_job)


def sop(s):
    return (op(s.operation), s.start_time, s.machine_id)


def schedule(s):
    return tuple(tuple(sop(x) for x in lst) for lst in s.schedule)


def schedule_rows(s):
    """Per machine list of (job, pos, start, end, machine)."""
    return [
        [
            (
                x.operation.job_id,
                x.operation.position_in_job,
                x.start_time,
                x.end_time,
                x.machine_id,
            )
            for x in lst
        ]
        for lst in s.schedule
    ]


def instance(i):
    return (
        tuple(tuple(op(o) for o in job) for job in i.jobs),
        i.name,
        repr(sorted(i.metadata.items(), key=repr)),
    )


def ops(lst):
    return sorted(op(o) for o in lst)


def jps(lst):
    return sorted(jp(o) for o in lst)
