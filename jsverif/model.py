"""Reference model: an independent simulator of dispatching, sharing no code
with job_shop_lib.  Operations are ``(job, position)`` pairs; everything is
recomputed from scratch from the per-machine lists on every query.
"""

from __future__ import annotations


class RefState:
    def __init__(self, durations, machines):
        self.d = durations
        self.m = machines
        self.n_jobs = len(durations)
        self.n_machines = 1 + max(x for job in machines for ms in job for x in ms)
        self.n_ops = sum(len(r) for r in durations)
        self.next = [0] * self.n_jobs
        # per machine: list of (job, pos, start, end)
        self.sched = [[] for _ in range(self.n_machines)]
        self.order = []  # (job, pos, machine, start, end) in dispatch order
        self.end = {}  # (job, pos) -> end
        self.where = {}  # (job, pos) -> (machine, start, end)

    # ---- ids
    def op_id(self, j, p):
        return sum(len(self.d[x]) for x in range(j)) + p

    def all_ops(self):
        return [(j, p) for j in range(self.n_jobs) for p in range(len(self.d[j]))]

    # ---- basic times
    def job_free(self, j):
        p = self.next[j]
        return self.end[(j, p - 1)] if p > 0 else 0

    def machine_free(self, m):
        return self.sched[m][-1][3] if self.sched[m] else 0

    def start(self, j, m):
        return max(self.job_free(j), self.machine_free(m))

    def apply(self, j, m):
        p = self.next[j]
        assert p < len(self.d[j]) and m in self.m[j][p]
        s = self.start(j, m)
        e = s + self.d[j][p]
        self.sched[m].append((j, p, s, e))
        self.order.append((j, p, m, s, e))
        self.end[(j, p)] = e
        self.where[(j, p)] = (m, s, e)
        self.next[j] += 1
        return s, e

    def count(self):
        return len(self.order)

    def complete(self):
        return len(self.order) == self.n_ops

    def makespan(self):
        return max((e for (_, _, _, _, e) in self.order), default=0)

    # ---- operation sets
    def ready(self):
        return [
            (j, self.next[j])
            for j in range(self.n_jobs)
            if self.next[j] < len(self.d[j])
        ]

    def scheduled(self):
        return [(j, p) for j in range(self.n_jobs) for p in range(self.next[j])]

    def unscheduled(self):
        return [
            (j, p)
            for j in range(self.n_jobs)
            for p in range(self.next[j], len(self.d[j]))
        ]

    def est(self, j):
        """Earliest start of the next operation of job j over its machines."""
        p = self.next[j]
        return max(
            self.job_free(j), min(self.machine_free(x) for x in self.m[j][p])
        )

    def min_start(self, ops):
        """min over ops and eligible machines of start; makespan if empty."""
        if not ops:
            return self.makespan()
        return min(self.start(j, x) for (j, p) in ops for x in self.m[j][p])

    # ---- filters, written from the docstrings / the property statement
    def f_non_idle_machines(self, ops):
        t = self.min_start(ops)
        out = []
        for j, p in ops:
            if any(self.machine_free(x) <= t for x in self.m[j][p]):
                out.append((j, p))
        return out

    def f_non_immediate_operations(self, ops):
        t = self.min_start(ops)
        return [
            (j, p)
            for (j, p) in ops
            if min(self.start(j, x) for x in self.m[j][p]) == t
        ]

    def f_non_immediate_machines(self, ops):
        t = self.min_start(ops)
        immediate = set()
        for j, p in ops:
            for x in self.m[j][p]:
                if self.start(j, x) == t:
                    immediate.add(x)
        return [
            (j, p) for (j, p) in ops if any(x in immediate for x in self.m[j][p])
        ]

    def f_dominated_operations(self, ops):
        """Exact criterion; only meaningful when all durations in ops > 0.
        Returns None when a zero duration is present (criterion undefined:
        see DESIGN.md 3.7)."""
        if any(self.d[j][p] == 0 for (j, p) in ops):
            return None
        min_end = {}
        for j, p in ops:
            for x in self.m[j][p]:
                e = self.start(j, x) + self.d[j][p]
                if x not in min_end or e < min_end[x]:
                    min_end[x] = e
        return [
            (j, p)
            for (j, p) in ops
            if any(self.start(j, x) < min_end[x] for x in self.m[j][p])
        ]

    # ---- user-written filters (callables defined in jsverif/lib.py); their
    # specification is the same selection expressed on (job, pos) pairs
    def f_custom_first_job_only(self, ops):
        """Offer only the ready operation of the lowest-numbered job."""
        return ops[:1]

    def f_custom_last_job_only(self, ops):
        return ops[-1:]

    def f_custom_hide_earliest(self, ops):
        """Withhold the operations that could start earliest (unless nothing
        else is left)."""
        t = self.min_start(ops)
        rest = [
            (j, p) for (j, p) in ops if min(self.start(j, x) for x in self.m[j][p]) > t
        ]
        return rest or list(ops)

    def f_custom_reserve_machine0(self, ops):
        # hides every operation that could run on machine 0; may be empty
        return [(j, p) for (j, p) in ops if 0 not in self.m[j][p]]

    def f_custom_identity(self, ops):
        return list(ops)

    def dominated_positive(self, ops):
        """The positive-duration operations of ops that are dominated under
        the literal criterion (also defined when ops holds zero durations)."""
        min_end = {}
        for j, p in ops:
            for x in self.m[j][p]:
                e = self.start(j, x) + self.d[j][p]
                if x not in min_end or e < min_end[x]:
                    min_end[x] = e
        return [
            (j, p)
            for (j, p) in ops
            if self.d[j][p] > 0
            and not any(self.start(j, x) < min_end[x] for x in self.m[j][p])
        ]

    def apply_filter(self, name, ops):
        return getattr(self, "f_" + name)(ops)

    def available(self, filters, real_fallback=None):
        """Ready operations after the composition ``filters`` (list of names
        or None).  Returns None if the exact result is undefined (dominated
        filter with a zero duration in its input)."""
        ops = self.ready()
        for name in filters or []:
            ops = self.apply_filter(name, ops)
            if ops is None:
                return None
        return ops

    # ---- time-dependent sets, given `now`
    def ongoing(self, now):
        return [
            (j, p, m, s, e) for (j, p, m, s, e) in self.order if e > now
        ]

    def completed(self, now):
        return [(j, p) for (j, p, m, s, e) in self.order if e <= now]

    # ---- rewards
    def idle_time(self):
        total = 0
        for lst in self.sched:
            prev = 0
            for _, _, s, e in lst:
                total += s - prev
                prev = e
        return total


def opt_makespan(durations, machines, upper=None):
    """Exact minimum makespan over all dispatch histories (= over all
    semi-active schedules, which contain an optimal one) by memoised DFS with
    branch and bound.  Independent of the library."""
    n_jobs = len(durations)
    n_m = 1 + max(x for job in machines for ms in job for x in ms)
    lens = [len(r) for r in durations]
    tail = [
        [sum(durations[j][p:]) for p in range(lens[j] + 1)] for j in range(n_jobs)
    ]
    best = [upper if upper is not None else float("inf")]
    seen = {}

    def rec(nxt, jf, mf):
        # lower bound: current max + remaining job tails
        lb = max(
            [max(mf) if mf else 0]
            + [jf[j] + tail[j][nxt[j]] for j in range(n_jobs)]
        )
        if lb >= best[0]:
            return
        if all(nxt[j] == lens[j] for j in range(n_jobs)):
            best[0] = lb
            return
        key = (nxt, jf, mf)
        if key in seen:
            return
        seen[key] = True
        cands = []
        for j in range(n_jobs):
            p = nxt[j]
            if p == lens[j]:
                continue
            for x in machines[j][p]:
                s = max(jf[j], mf[x])
                cands.append((s + durations[j][p], s, j, x))
        cands.sort()
        for e, s, j, x in cands:
            nn = nxt[:j] + (nxt[j] + 1,) + nxt[j + 1 :]
            nj = jf[:j] + (e,) + jf[j + 1 :]
            nm = mf[:x] + (e,) + mf[x + 1 :]
            rec(nn, nj, nm)

    rec((0,) * n_jobs, (0,) * n_jobs, (0,) * n_m)
    return best[0]
