"""Exceptions and the per-case context shared by runner and properties."""

from __future__ import annotations


class Violation(Exception):
    def __init__(self, clause, message, **details):
        super().__init__(f"[{clause}] {message}")
        self.clause = clause
        self.message = message
        self.details = details


class HarnessError(Exception):
    pass


class Ctx:
    """Per-case context handed to check_case."""

    def __init__(self, prop_id, known_clauses=(), tier="quick"):
        self.prop_id = prop_id
        self.known = set(known_clauses)
        self.tier = tier
        self.counters = {}
        self.labels = set()
        self.nontrivial = False
        self.known_hits = {}

    def fail(self, clause, message, **details):
        if clause in self.known:
            self.known_hits[clause] = self.known_hits.get(clause, 0) + 1
            return
        raise Violation(clause, message, **details)

    def check(self, cond, clause, message, **details):
        if not cond:
            self.fail(clause, message, **details)
        return cond

    def count(self, name, n=1):
        self.counters[name] = self.counters.get(name, 0) + n

    def label(self, *names):
        self.labels.update(names)
