"""Independent schedule feasibility checker.

Input: the instance matrices and ``lists`` = per machine a list of
``(job, pos, start, end, machine)`` tuples as read from the library's schedule
(via :func:`jsverif.fingerprint.schedule_rows`).  Returns a list of problems
(empty = feasible).  ``partial=True`` additionally requires the scheduled
operations of each job to form a prefix of the job.
"""

from __future__ import annotations


def problems(durations, machines, lists, partial=True):
    out = []
    seen = {}
    n_m = 1 + max(x for job in machines for ms in job for x in ms)
    if len(lists) != n_m:
        out.append(f"schedule has {len(lists)} machine lists, instance has {n_m} machines")
    for mi, lst in enumerate(lists):
        prev_end = None
        for k, (j, p, s, e, mm) in enumerate(lst):
            if not (0 <= j < len(durations) and 0 <= p < len(durations[j])):
                out.append(f"unknown operation ({j},{p}) on machine {mi}")
                continue
            if (j, p) in seen:
                out.append(f"operation ({j},{p}) appears more than once")
            seen[(j, p)] = (mi, s, e)
            if mm != mi:
                out.append(f"operation ({j},{p}) in list {mi} says machine {mm}")
            if mi not in machines[j][p]:
                out.append(f"operation ({j},{p}) on ineligible machine {mi}")
            if s < 0:
                out.append(f"operation ({j},{p}) has negative start {s}")
            if e != s + durations[j][p]:
                out.append(f"operation ({j},{p}) end {e} != start {s} + duration")
            if prev_end is not None and s < prev_end:
                out.append(
                    f"machine {mi}: entry {k} ({j},{p}) starts {s} before previous end {prev_end}"
                )
            prev_end = e
    for j, row in enumerate(durations):
        ps = sorted(p for (jj, p) in seen if jj == j)
        if partial and ps != list(range(len(ps))):
            out.append(f"job {j}: scheduled positions {ps} are not a prefix")
        for a, b in zip(ps, ps[1:]):
            if seen[(j, a)][2] > seen[(j, b)][1]:
                out.append(
                    f"job {j}: position {a} ends {seen[(j, a)][2]} after position {b} starts {seen[(j, b)][1]}"
                )
    return out


def is_complete(durations, lists):
    n = sum(len(r) for r in durations)
    return len({(j, p) for lst in lists for (j, p, *_r) in lst}) == n and sum(
        len(lst) for lst in lists
    ) == n


def makespan(lists):
    return max((e for lst in lists for (_j, _p, _s, e, _m) in lst), default=0)
