"""Hypothesis strategies.  Everything they produce is plain JSON data.

An *instance case* is ``{"durations": [[int]], "machines": [[[int]]],
"name": str, "meta": {..}, "ints": bool}``: ``machines[j][p]`` is the list of
eligible machine ids of the operation at position ``p`` of job ``j`` (always a
list here; ``ints`` says whether single-machine operations are handed to the
library as a bare int, which it documents as an accepted spelling).

A *history* is a list of ``[a, b]`` pairs of small non-negative integers; the
interpreter in :mod:`jsverif.lib` turns every such list into a legal dispatch
sequence (``a`` picks among the currently dispatchable operations, ``b`` among
the eligible machines), so nothing is ever filtered or rejected.
"""

from __future__ import annotations

import json
import os

from hypothesis import strategies as st

_BENCH = None


def _benchmarks():
    global _BENCH
    if _BENCH is None:
        repo = os.environ.get("JSL_REPO", "/repo")
        path = os.path.join(
            repo, "job_shop_lib", "benchmarking", "benchmark_instances.json"
        )
        with open(path, encoding="utf-8") as f:
            _BENCH = json.load(f)
    return _BENCH


def benchmark_case(name):
    """Instance case of a benchmark instance shipped with the repository."""
    b = _benchmarks()[name]
    return {
        "durations": [list(r) for r in b["duration_matrix"]],
        "machines": [[[m] for m in r] for r in b["machines_matrix"]],
        "name": name,
        "meta": {},
        "ints": True,
        "family": "benchmark",
    }


def _durations(zero_ok, max_duration):
    if zero_ok:
        return st.one_of(
            st.integers(1, max_duration),
            st.integers(0, 2),
            st.integers(0, max_duration),
        )
    return st.integers(1, max_duration)


_NAMES = st.text(alphabet="abcXYZ019_-. ", min_size=0, max_size=6)
_META = st.dictionaries(
    st.sampled_from(["optimum", "lower_bound", "k", "tag"]),
    st.one_of(st.integers(0, 99), st.text("ab", max_size=2), st.none()),
    max_size=2,
)


@st.composite
def instances(  # pylint: disable=too-many-arguments,too-many-locals
    draw,
    max_jobs=5,
    max_ops=5,
    max_machines=5,
    max_total=25,
    flexible=None,
    zero_ok=True,
    regular=None,
    max_duration=9,
    benchmarks=(),
    min_jobs=1,
    with_text=False,
    big_ok=False,
):
    """General instance generator (see DESIGN.md 2.3).

    flexible: None = either, False = never, True = operations may get several
    eligible machines.  regular: None = either, True = all jobs equally long.
    """
    wide_ok = max_total >= 20 and min_jobs <= 10
    family = draw(
        st.sampled_from(
            ["general"] * 8
            + ["classic"] * 2
            + (["bench"] if benchmarks else [])
            + (["wide"] if wide_ok else [])
            + (["balanced_flex"] if flexible is not False and regular is not False and min_jobs <= 2 and max_jobs >= 2 else [])
        )
    )
    if family == "bench":
        return benchmark_case(draw(st.sampled_from(list(benchmarks))))
    durs = _durations(zero_ok, max_duration)
    if family == "balanced_flex":
        # M equally long jobs on M machines, every operation eligible on two
        # neighbouring machines: flexible, yet every machine has the same
        # number of eligible operations (vectorised code paths)
        n_m = draw(st.integers(2, max(2, min(max_machines, max_jobs, 4))))
        length = draw(st.integers(1, max(1, min(max_ops, max_total // n_m))))
        shift = draw(st.integers(0, n_m - 1))
        machines = [
            [sorted({(j + p + shift) % n_m, (j + p + shift + 1) % n_m}, reverse=bool((j + p) % 2)) for p in range(length)]
            for j in range(n_m)
        ]
        durations = [[draw(durs) for _ in range(length)] for _ in range(n_m)]
    elif family == "wide":
        # many short jobs on many machines: job ids and machine ids >= 10
        # (two-digit ids), more entities than any other family has
        n_j = draw(st.integers(10, 12))
        n_m = 13
        is_flex = draw(st.booleans()) if flexible is None else flexible
        budget = max_total
        lengths = []
        for j in range(n_j):
            rest = n_j - j - 1
            hi = max(1, min(2, budget - rest))
            ln = 1 if regular else draw(st.integers(1, hi))
            lengths.append(ln)
            budget -= ln
        # machine ids 12, 11, 10 and 2, 1, 0 (ids in between stay unused):
        # one- and two-digit ids side by side, as operation ids are
        high = st.integers(0, 5).map(lambda m: [12, 2, 11, 1, 10, 0][m])
        one = high.map(lambda m: [m])
        mach = st.one_of(one, st.lists(high, min_size=2, max_size=3, unique=True)) if is_flex else one
        machines = [[draw(mach) for _ in range(ln)] for ln in lengths]
        durations = [[draw(durs) for _ in range(ln)] for ln in lengths]
    elif family == "classic":
        n_m = draw(st.integers(1, min(max_machines, max_ops)))
        n_j = draw(
            st.integers(min_jobs, max(min_jobs, min(max_jobs, max_total // n_m)))
        )
        machines = [
            [[m] for m in draw(st.permutations(list(range(n_m))))]
            for _ in range(n_j)
        ]
        durations = [[draw(durs) for _ in range(n_m)] for _ in range(n_j)]
    else:
        n_m = draw(st.integers(1, max_machines))
        n_j = draw(st.integers(min_jobs, max_jobs))
        is_regular = draw(st.booleans()) if regular is None else regular
        is_flex = draw(st.booleans()) if flexible is None else flexible
        if is_regular:
            length = draw(st.integers(1, max(1, min(max_ops, max_total // n_j))))
            lengths = [length] * n_j
        else:
            lengths = []
            budget = max_total
            for j in range(n_j):
                rest = n_j - j - 1
                hi = max(1, min(max_ops, budget - rest))
                ln = draw(st.integers(1, hi))
                lengths.append(ln)
                budget -= ln
        one = st.integers(0, n_m - 1).map(lambda m: [m])
        if is_flex:
            many = st.lists(
                st.integers(0, n_m - 1), min_size=1, max_size=n_m, unique=True
            )
            mach = st.one_of(one, many)
        else:
            mach = one
        machines = [[draw(mach) for _ in range(ln)] for ln in lengths]
        durations = [[draw(durs) for _ in range(ln)] for ln in lengths]
    if big_ok and draw(st.integers(0, 7)) == 0:
        # durations are arbitrary integers (e.g. microseconds): scale them so
        # that times exceed 2**24 and are not representable in float32;
        # big_ok=2 (pure integer oracles only) also goes beyond float64 and
        # int64
        factors = [2**24 + 1, 10**9 + 7]
        if big_ok == 2:
            factors += [2**53 + 1, 2**64 + 3]
        factor = draw(st.sampled_from(factors))
        if draw(st.booleans()):
            durations = [[x * factor for x in row] for row in durations]
        else:
            # huge values that differ by little: rounding decides comparisons
            durations = [[(factor + x) if x else 0 for x in row] for row in durations]
    case = {
        "durations": durations,
        "machines": machines,
        "name": draw(_NAMES) if with_text else "I",
        "meta": draw(_META) if with_text else {},
        "ints": draw(st.booleans()),
        "family": family,
    }
    if draw(st.integers(0, 5)) == 0:
        # the Operation objects were used by another instance before
        case["recycled"] = True
    return case


@st.composite
def sized_lists(draw, elements, max_size, min_size=0):
    """Lists whose length is drawn uniformly first (st.lists on its own
    averages about five elements, far too short for histories).  Shrinks the
    length, then the elements."""
    n = draw(st.integers(min_size, max_size))
    return draw(st.lists(elements, min_size=n, max_size=n))


def histories(max_len=40, max_a=7, max_b=5):
    """Choice sequences; missing entries are read as [0, 0]."""
    return sized_lists(
        st.tuples(st.integers(0, max_a), st.integers(0, max_b)).map(list),
        max_len,
    )


FILTER_NAMES = [
    "dominated_operations",
    "non_immediate_machines",
    "non_idle_machines",
    "non_immediate_operations",
]


CUSTOM_FILTER_NAMES = [
    "custom_first_job_only",
    "custom_last_job_only",
    "custom_hide_earliest",
    "custom_identity",
]


def filter_configs(max_len=3, allow_none=True, custom=False):
    """None or a list of 1..max_len filter names (a composition); with
    custom=True user-written callables are mixed in."""
    names = FILTER_NAMES + (CUSTOM_FILTER_NAMES if custom else [])
    comp = st.lists(st.sampled_from(names), min_size=1, max_size=max_len)
    if allow_none:
        return st.one_of(st.none(), comp, comp)
    return comp


def num_ops(inst):
    return sum(len(r) for r in inst["durations"])


def inst_labels(inst):
    """Labels describing the shape of an instance case (for distributions)."""
    d, m = inst["durations"], inst["machines"]
    labels = []
    used = set()
    flex = False
    recirc = False
    for job in m:
        seen = []
        for ms in job:
            used.update(ms)
            if len(ms) > 1:
                flex = True
            if any(x in seen for x in ms):
                recirc = True
            seen.extend(ms)
    n_m = max(used) + 1
    if flex:
        labels.append("flexible")
    if recirc:
        labels.append("recirculation")
    if len({len(r) for r in d}) > 1:
        labels.append("irregular")
    if any(x == 0 for r in d for x in r):
        labels.append("zero_duration")
    if any(x > 2**24 for r in d for x in r):
        labels.append("huge_durations")
    if inst.get("recycled"):
        labels.append("recycled_operations")
    if len(used) < n_m:
        labels.append("unused_machine_id")
    loads = [0] * n_m
    for job in m:
        for ms in job:
            for x in ms:
                loads[x] += 1
    if len(set(loads)) > 1:
        labels.append("unequal_machine_ops")
    n = num_ops(inst)
    labels.append("ops<=4" if n <= 4 else "ops<=10" if n <= 10 else "ops>10")
    labels.append("family=" + inst.get("family", "?"))
    return labels


@st.composite
def weighted(draw, *pairs):
    """one_of with integer weights (st.one_of de-duplicates equal branches).
    Shrinks towards the first branch."""
    total = sum(w for w, _ in pairs)
    i = draw(st.integers(0, total - 1))
    for w, s in pairs:
        if i < w:
            return draw(s)
        i -= w
    raise AssertionError


def pick(options):
    """Uniform choice (st.sampled_from is visibly skewed towards the first
    elements in generated data); shrinks to the first option."""
    options = list(options)
    return st.integers(0, 10007).map(lambda i: options[i % len(options)])


def _fixed_permutation(n, k):
    """A fixed, irregular permutation of range(n) (Fisher-Yates driven by a
    linear congruential sequence seeded with k)."""
    perm = list(range(n))
    x = 12345 + 7919 * k
    for t in range(n - 1, 0, -1):
        x = (1103515245 * x + 12345) % 2**31
        r = (x >> 8) % (t + 1)
        perm[t], perm[r] = perm[r], perm[t]
    return perm


def big_classic(n_jobs, n_machines, name="big"):
    """Deterministic classic instance (every job visits every machine once,
    in a rotated order) for fixed cases beyond the generated sizes."""
    return {
        "durations": [[1 + (7 * j + 3 * p) % 9 for p in range(n_machines)] for j in range(n_jobs)],
        "machines": [[[x] for x in _fixed_permutation(n_machines, j)] for j in range(n_jobs)],
        "name": name,
        "meta": {},
        "ints": True,
        "family": "fixed_big",
    }


def many_ready(n_jobs, n_machines, name="many"):
    """Deterministic instance with many short jobs (all ready at the start),
    operations with one and with two eligible machines mixed, positive
    durations - for fixed cases beyond the generated numbers of jobs."""
    durations, machines = [], []
    for j in range(n_jobs):
        perm = _fixed_permutation(n_machines, j)
        ln = 1 + (j % 3 == 0)
        durations.append([1 + (5 * j + 2 * p) % 4 for p in range(ln)])
        machines.append([[perm[p]] if (j + p) % 2 else [perm[p], perm[p + 1]] for p in range(ln)])
    return {"durations": durations, "machines": machines, "name": name, "meta": {}, "ints": True, "family": "fixed_many_ready"}
