"""Coverage-guided second engine (atheris / libFuzzer) for the dispatcher core.

Bytes are decoded through a FuzzedDataProvider into the SAME plain-data cases
the Hypothesis strategies produce, and the property's own `check_case` (with its
independent oracle) runs inside the fuzz target, so a finding is an ordinary
replay file.  job_shop_lib is imported under atheris' instrumentation, so
libFuzzer's coverage feedback steers towards new branches of the dispatcher,
schedule and filter code.

Used by the thorough tier of the properties listed in FUZZ_PROPS (runner.py
calls `./check --fuzz <ID> <runs> <seed> <outdir>` in a subprocess because
atheris.Fuzz() never returns).
"""

from __future__ import annotations

import json
import os
import sys

FUZZ_PROPS = ("C01", "C02", "C05", "C06", "C07")


def decode_instance(fdp, zero_ok=True, max_jobs=4, max_ops=4, max_machines=4):
    n_j = fdp.ConsumeIntInRange(1, max_jobs)
    n_m = fdp.ConsumeIntInRange(1, max_machines)
    flexible = fdp.ConsumeBool()
    durations, machines = [], []
    for _ in range(n_j):
        ln = fdp.ConsumeIntInRange(1, max_ops)
        drow, mrow = [], []
        for _ in range(ln):
            drow.append(fdp.ConsumeIntInRange(0 if zero_ok else 1, 9))
            pool = list(range(n_m))
            k = fdp.ConsumeIntInRange(1, n_m) if flexible else 1
            ms = []
            for _ in range(k):
                ms.append(pool.pop(fdp.ConsumeIntInRange(0, len(pool) - 1)))
            mrow.append(ms)
        durations.append(drow)
        machines.append(mrow)
    return {
        "durations": durations,
        "machines": machines,
        "name": "F",
        "meta": {},
        "ints": fdp.ConsumeBool(),
        "family": "fuzz",
    }


NAMES = [
    "dominated_operations",
    "non_immediate_machines",
    "non_idle_machines",
    "non_immediate_operations",
]


def decode_filters(fdp, allow_none=True, max_len=3):
    n = fdp.ConsumeIntInRange(0 if allow_none else 1, max_len)
    if n == 0:
        return None
    return [NAMES[fdp.ConsumeIntInRange(0, 3)] for _ in range(n)]


def decode_case(prop_id, data):
    import atheris

    fdp = atheris.FuzzedDataProvider(data)
    if prop_id == "C01":
        filters = decode_filters(fdp)
        inst = decode_instance(fdp)
        pre = fdp.ConsumeIntInRange(0, 6)
        hist = []
        while fdp.remaining_bytes() >= 3 and len(hist) < 20:
            hist.append([fdp.ConsumeIntInRange(0, 7), fdp.ConsumeIntInRange(0, 5), fdp.ConsumeIntInRange(0, 15)])
        return {"mode": "sequence", "inst": inst, "filters": filters, "history": hist, "pre": pre}
    if prop_id == "C02":
        inst = decode_instance(fdp)
        stop = fdp.ConsumeIntInRange(0, 17)
        hist = []
        while fdp.remaining_bytes() >= 2 and len(hist) < 20:
            hist.append([fdp.ConsumeIntInRange(0, 7), fdp.ConsumeIntInRange(0, 5)])
        fk = fdp.ConsumeIntInRange(0, 9)
        return {
            "mode": "sequence",
            "inst": inst,
            "history": hist,
            "stop": None if stop == 17 else stop,
            "fork": fk if fk < 6 else None,
        }
    if prop_id == "C05":
        filters = decode_filters(fdp)
        inst = decode_instance(fdp)
        events = []
        while fdp.remaining_bytes() >= 4 and len(events) < 60:
            t = fdp.ConsumeIntInRange(0, 19)
            if t < 12:
                events.append(["q", fdp.ConsumeIntInRange(0, 19), fdp.ConsumeIntInRange(0, 40), fdp.ConsumeIntInRange(0, 5)])
            elif t < 18:
                events.append(["d", fdp.ConsumeIntInRange(0, 7), fdp.ConsumeIntInRange(0, 5)])
            elif t == 18:
                events.append(["r"])
            else:
                events.append(["o"])
        return {"inst": inst, "filters": filters, "events": events}
    if prop_id == "C06":
        filters = decode_filters(fdp, max_len=4)
        inst = decode_instance(fdp, zero_ok=filters is None)
        hist = []
        while fdp.remaining_bytes() >= 2 and len(hist) < 20:
            hist.append([fdp.ConsumeIntInRange(0, 7), fdp.ConsumeIntInRange(0, 5)])
        pre = fdp.ConsumeIntInRange(0, 8)
        fk = fdp.ConsumeIntInRange(0, 9)
        return {
            "inst": inst,
            "filters": filters,
            "history": hist,
            "pre": pre,
            "blind": fdp.ConsumeBool(),
            "fork": fk if fk < 5 else None,
        }
    if prop_id == "C07":
        n = fdp.ConsumeIntInRange(1, 4)
        comp = [[NAMES[fdp.ConsumeIntInRange(0, 3)], fdp.ConsumeIntInRange(0, 2)] for _ in range(n)]
        inst = decode_instance(fdp)
        masks = [fdp.ConsumeIntInRange(1, 63) for _ in range(fdp.ConsumeIntInRange(0, 3))]
        hist = []
        while fdp.remaining_bytes() >= 3 and len(hist) < 20:
            hist.append([fdp.ConsumeIntInRange(0, 7), fdp.ConsumeIntInRange(0, 5), fdp.ConsumeIntInRange(0, 3)])
        return {"inst": inst, "comp": comp, "history": hist, "masks": masks, "nest": fdp.ConsumeIntInRange(0, 2)}
    raise ValueError(prop_id)


def main(argv):
    """check --fuzz <ID> <runs> <seed> <outdir>"""
    prop_id, runs, seed, outdir = argv[2], int(argv[3]), int(argv[4]), argv[5]
    import atheris

    with atheris.instrument_imports(include=["job_shop_lib"]):
        import job_shop_lib  # noqa: F401
        import job_shop_lib.dispatching  # noqa: F401
    from . import runner
    from .core import Ctx

    prop = runner.load_prop(prop_id)
    known, _ = runner.load_known(prop_id)
    known_clauses = [e["clause"] for e in known if "case" not in e]
    stats = {"execs": 0, "nontrivial": set(), "labels": {}, "samples": []}
    stats_path = os.path.join(outdir, "stats.json")

    def flush():
        with open(stats_path + ".tmp", "w", encoding="utf-8") as f:
            json.dump(
                {
                    "execs": stats["execs"],
                    "hashes": sorted(stats["nontrivial"]),
                    "labels": stats["labels"],
                    "samples": stats["samples"],
                },
                f,
            )
        os.replace(stats_path + ".tmp", stats_path)

    def one_input(data):
        case = decode_case(prop_id, data)
        ctx = Ctx(prop_id, known_clauses, "thorough")
        failure = runner.run_case(prop, case, ctx)
        stats["execs"] += 1
        if failure is not None:
            with open(os.path.join(outdir, "failure.json"), "w", encoding="utf-8") as f:
                json.dump(failure.to_json(prop_id), f, indent=1, sort_keys=True)
            flush()
            raise RuntimeError("VIOLATION " + failure.clause)
        if ctx.nontrivial:
            h = runner.case_hash(case)
            if h not in stats["nontrivial"]:
                stats["nontrivial"].add(h)
                if len(stats["samples"]) < 2:
                    stats["samples"].append(case)
        for lab in ctx.labels:
            stats["labels"][lab] = stats["labels"].get(lab, 0) + 1
        if stats["execs"] % 500 == 0 or stats["execs"] >= runs:
            flush()

    corpus = os.path.join(outdir, "corpus")
    os.makedirs(corpus, exist_ok=True)
    atheris.Setup(
        [
            sys.argv[0],
            f"-runs={runs}",
            f"-seed={seed if seed else 1}",
            "-max_len=400",
            "-print_final_stats=0",
            f"-artifact_prefix={outdir}/",
            corpus,
        ],
        one_input,
    )
    atheris.Fuzz()
