"""Glue between plain-data cases and real job_shop_lib objects."""

from __future__ import annotations

from job_shop_lib import JobShopInstance, Operation
from job_shop_lib.dispatching import (
    Dispatcher,
    create_composite_operation_filter,
    ready_operations_filter_factory,
)

from . import fingerprint as fp
from .model import RefState


def build_instance(inst):
    """Fresh JobShopInstance from an instance case.  With ``recycled`` the
    Operation objects first belong to another, differently shaped instance
    (one job holding all operations in reverse order), which has assigned
    them other job ids / positions / operation ids."""
    jobs = build_jobs(inst)
    if inst.get("recycled"):
        if sum(len(j) for j in jobs) % 2:
            JobShopInstance([[o for job in reversed(jobs) for o in reversed(job)]], name="other")
        else:
            # ... or to an earlier version of the same instance whose first
            # job was one operation longer (same jobs and positions, other
            # operation ids)
            longer = [list(job) for job in jobs]
            longer[0] = longer[0] + [Operation(0, 1)]
            JobShopInstance(longer, name="earlier version")
    return instance_from_jobs(inst, jobs)


def instance_from_jobs(inst, jobs):
    return JobShopInstance(jobs, name=inst.get("name", "I"), **inst.get("meta", {}))


def build_jobs(inst):
    """The list of lists of fresh Operation objects of an instance case."""
    jobs = []
    for drow, mrow in zip(inst["durations"], inst["machines"]):
        job = []
        for d, ms in zip(drow, mrow):
            if len(ms) == 1 and inst.get("ints", False):
                job.append(Operation(ms[0], d))
            else:
                job.append(Operation(list(ms), d))
        jobs.append(job)
    return jobs


def _custom_first_job_only(dispatcher, operations):
    return operations[:1]


def _custom_last_job_only(dispatcher, operations):
    return operations[-1:]


def _custom_hide_earliest(dispatcher, operations):
    if not operations:
        return []
    t = dispatcher.min_start_time(operations)
    rest = [
        op
        for op in operations
        if min(dispatcher.start_time(op, m) for m in op.machines) > t
    ]
    return rest or list(operations)


def _custom_identity(dispatcher, operations):
    return list(operations)


def _custom_reserve_machine0(dispatcher, operations):
    """Hides every operation that could run on machine 0 (a machine reserved
    for maintenance): the result may be empty although operations are ready.
    No specification in the model: only for checks that read the real lists."""
    return [op for op in operations if 0 not in op.machines]


CUSTOM_FILTERS = {
    "custom_first_job_only": _custom_first_job_only,
    "custom_last_job_only": _custom_last_job_only,
    "custom_hide_earliest": _custom_hide_earliest,
    "custom_identity": _custom_identity,
    "custom_reserve_machine0": _custom_reserve_machine0,
}


def _one_filter(name):
    if name in CUSTOM_FILTERS:
        return CUSTOM_FILTERS[name]
    return name


def build_filter(names):
    """None, a single filter function, or a composition; names starting with
    ``custom_`` are user-written callables (a ready-operations filter is any
    callable (dispatcher, operations) -> operations)."""
    if names is None:
        return None
    if len(names) == 1:
        return ready_operations_filter_factory(_one_filter(names[0]))
    return create_composite_operation_filter([_one_filter(n) for n in names])


def ref(inst):
    return RefState(inst["durations"], inst["machines"])


def pick(history, k):
    if k < len(history):
        return history[k][0], history[k][1]
    return 0, 0


class Driver:
    """Drives a real Dispatcher and the reference model in lock step along a
    choice sequence.  `pool` decides what the first integer chooses from:
    "ready" (raw ready operations) or "available" (filtered)."""

    def __init__(self, inst, filters=None, instance=None, dispatcher=None):
        self.inst = inst
        self.instance = instance if instance is not None else build_instance(inst)
        self.filters = filters
        if dispatcher is None:
            dispatcher = Dispatcher(self.instance, build_filter(filters))
        self.dispatcher = dispatcher
        self.model = ref(inst)

    def op(self, j, p):
        return self.instance.jobs[j][p]

    def candidates(self, pool):
        """(job, pos) pairs that may be dispatched, taken from the real
        dispatcher (and compared with the model by the properties that are
        about that)."""
        if pool == "available":
            return [fp.jp(o) for o in self.dispatcher.available_operations()]
        return self.model.ready()

    def choose(self, a, b, pool="ready"):
        cands = self.candidates(pool)
        j, p = cands[a % len(cands)]
        ms = self.inst["machines"][j][p]
        m = ms[b % len(ms)]
        return j, p, m

    def dispatch(self, j, p, m, explicit_machine=True):
        o = self.op(j, p)
        if explicit_machine or len(o.machines) > 1:
            self.dispatcher.dispatch(o, m)
        else:
            self.dispatcher.dispatch(o)
        return self.model.apply(j, m)

    def step(self, a, b, pool="ready"):
        j, p, m = self.choose(a, b, pool)
        s, e = self.dispatch(j, p, m)
        return j, p, m, s, e


def fork(dispatcher, model):
    """copy.deepcopy of a dispatcher - with whatever is subscribed to it -
    and of the model that mirrors it (a planner branching the state)."""
    import copy

    return copy.deepcopy(dispatcher), copy.deepcopy(model)


def disturb(clone, cmodel, inst, steps=2):
    """Plays a forked dispatcher forward (last ready operation on its last
    eligible machine) and queries it, as a look-ahead would."""
    done = 0
    for _ in range(steps):
        if cmodel.complete():
            break
        j, p = cmodel.ready()[-1]
        m = inst["machines"][j][p][-1]
        clone.dispatch(clone.instance.jobs[j][p], m)
        cmodel.apply(j, m)
        clone.current_time()
        clone.available_operations()
        clone.completed_operations()
        clone.uncompleted_operations()
        done += 1
    return done
