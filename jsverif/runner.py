"""Runner: seeds, tiers, workers, replay, evidence, known findings.

Usage (through /verif/check):
    check <ID> quick|thorough          run the property's check
    check <ID> --replay <file>         re-run one saved case without Hypothesis
    (internal) --worker <i> <n> <out>  one thorough-tier worker
"""

from __future__ import annotations

import glob
import hashlib
import importlib
import json
import os
import random
import subprocess
import sys
import time
import traceback

ROOT = os.path.dirname(os.path.dirname(os.path.abspath(__file__)))
REPO = os.environ.get("JSL_REPO", "/repo")
OUT = os.environ.get("VERIF_OUT", ROOT)
N_WORKERS = int(os.environ.get("VERIF_WORKERS", "16"))


from .core import Ctx, HarnessError, Violation  # noqa: E402


def canon(case):
    return json.dumps(case, sort_keys=True, separators=(",", ":"))


def case_hash(case):
    return hashlib.sha1(canon(case).encode()).hexdigest()


def load_prop(prop_id):
    return importlib.import_module(f"jsverif.props.{prop_id.lower()}")


def load_known(prop_id):
    path = os.path.join(ROOT, "known_findings.json")
    if not os.path.exists(path):
        return [], []
    with open(path, encoding="utf-8") as f:
        data = json.load(f)
    known = [e for e in data.get("known", []) if e["property"] == prop_id]
    fixed = [e for e in data.get("fixed", []) if e["property"] == prop_id]
    return known, fixed


def _lib_frame(tb):
    """Innermost traceback frame inside job_shop_lib, or None."""
    found = None
    for fr in traceback.extract_tb(tb):
        if "/job_shop_lib/" in fr.filename.replace("\\", "/"):
            found = fr
    return found


class Failure:
    def __init__(self, case, clause, message, details=None, tb=""):
        self.case = case
        self.clause = clause
        self.message = message
        self.details = details or {}
        self.tb = tb

    def to_json(self, prop_id):
        return {
            "property": prop_id,
            "clause": self.clause,
            "message": self.message,
            "details": _jsonable(self.details),
            "case": self.case,
            "traceback": self.tb[-3000:],
        }


def _jsonable(x):
    try:
        json.dumps(x)
        return x
    except (TypeError, ValueError):
        if isinstance(x, dict):
            return {str(k): _jsonable(v) for k, v in x.items()}
        if isinstance(x, (list, tuple, set, frozenset)):
            return [_jsonable(v) for v in x]
        return repr(x)


def run_case(prop, case, ctx):
    """Runs check_case; returns a Failure or None.  Harness errors raise."""
    # the global PRNGs are part of the environment of a case: pin them so a
    # case behaves the same inside Hypothesis (which seeds them with 0 for
    # every example) and when replayed directly.
    random.seed(0)
    try:
        import numpy

        numpy.random.seed(0)
    except ImportError:
        pass
    try:
        prop.check_case(case, ctx)
    except Violation as v:
        return Failure(case, v.clause, v.message, v.details, traceback.format_exc())
    except HarnessError:
        raise
    except RecursionError:
        raise
    except Exception as e:  # pylint: disable=broad-except
        fr = _lib_frame(e.__traceback__)
        if fr is None:
            raise HarnessError(
                f"{type(e).__name__}: {e}\n{traceback.format_exc()}"
            ) from e
        clause = (
            f"lib-exception:{type(e).__name__}@"
            f"{os.path.basename(fr.filename)}:{fr.name}"
        )
        if clause in ctx.known:
            ctx.known_hits[clause] = ctx.known_hits.get(clause, 0) + 1
            return None
        return Failure(
            case, clause, f"{type(e).__name__}: {e}", {}, traceback.format_exc()
        )
    return None


class Stats:
    def __init__(self):
        self.evaluations = 0
        self.nontrivial_hashes = set()
        self.labels = {}
        self.counters = {}
        self.samples = []
        self.known_hits = {}
        self.failure = None
        self.inconclusive = False
        self.notes = []

    def absorb(self, case, ctx):
        self.evaluations += 1
        for lab in ctx.labels:
            self.labels[lab] = self.labels.get(lab, 0) + 1
        for k, v in ctx.counters.items():
            self.counters[k] = self.counters.get(k, 0) + v
        for k, v in ctx.known_hits.items():
            self.known_hits[k] = self.known_hits.get(k, 0) + v
        if ctx.nontrivial:
            h = case_hash(case)
            if h not in self.nontrivial_hashes:
                self.nontrivial_hashes.add(h)
                if len(self.samples) < 3:
                    self.samples.append(case)

    def to_json(self):
        return {
            "evaluations": self.evaluations,
            "hashes": sorted(self.nontrivial_hashes),
            "labels": self.labels,
            "counters": self.counters,
            "samples": self.samples,
            "known_hits": self.known_hits,
            "failure": None,
            "inconclusive": self.inconclusive,
            "notes": self.notes,
        }

    def merge_json(self, d):
        self.evaluations += d["evaluations"]
        self.nontrivial_hashes.update(d["hashes"])
        for k, v in d["labels"].items():
            self.labels[k] = self.labels.get(k, 0) + v
        for k, v in d["counters"].items():
            self.counters[k] = self.counters.get(k, 0) + v
        for k, v in d["known_hits"].items():
            self.known_hits[k] = self.known_hits.get(k, 0) + v
        for s in d["samples"]:
            if len(self.samples) < 4:
                self.samples.append(s)
        self.inconclusive = self.inconclusive or d.get("inconclusive", False)
        self.notes.extend(d.get("notes", []))


def generate(prop, tier, seed, n_examples, stats, known_clauses, shrink_budget):
    """Hypothesis-driven search.  Returns a Failure (shrunk) or None."""
    import hypothesis
    from hypothesis import HealthCheck, Phase, given, settings

    state = {"fail": None, "t_first": None, "best_key": None}

    strat = prop.strategy(tier)

    @hypothesis.seed(seed)
    @settings(
        max_examples=n_examples,
        deadline=None,
        database=None,
        derandomize=False,
        report_multiple_bugs=False,
        print_blob=False,
        phases=[Phase.generate, Phase.shrink],
        verbosity=hypothesis.Verbosity.quiet,
        suppress_health_check=[
            HealthCheck.too_slow,
            HealthCheck.data_too_large,
            HealthCheck.large_base_example,
        ],
    )
    @given(case=strat)
    def test(case):
        if state["t_first"] is not None:
            # shrinking: after the budget, only the best case still fails so
            # that the shrinker terminates at once.
            if (
                time.time() - state["t_first"] > shrink_budget
                and canon(case) != state["best_key"]
            ):
                return
        ctx = Ctx(prop.ID, known_clauses, tier)
        failure = run_case(prop, case, ctx)
        if failure is None:
            if state["t_first"] is None:
                stats.absorb(case, ctx)
            return
        if state["t_first"] is None:
            state["t_first"] = time.time()
        state["fail"] = failure
        state["best_key"] = canon(case)
        raise AssertionError(failure.clause)

    try:
        test()  # pylint: disable=no-value-for-parameter
    except HarnessError:
        raise
    except hypothesis.errors.FailedHealthCheck as e:
        raise HarnessError(f"generator health check failed: {e}") from e
    except BaseException as e:  # pylint: disable=broad-except
        if state["fail"] is None:
            if isinstance(e, (KeyboardInterrupt, SystemExit)):
                raise
            raise HarnessError(
                f"hypothesis raised without a recorded failure: "
                f"{type(e).__name__}: {e}\n{traceback.format_exc()}"
            ) from e
    if state["fail"] is None:
        return None
    # confirm the shrunk case fails when run directly, bypassing Hypothesis
    fail = state["fail"]
    for _ in range(3):
        again = run_case(prop, fail.case, Ctx(prop.ID, known_clauses, tier))
        if again is not None:
            return again
    # The failure was observed against the real code inside the run but does
    # not reproduce from the saved input: the behaviour depends on something
    # outside the case (memory layout, thread timing).  It is still reported,
    # flagged as non-deterministic, with the case in which it was observed.
    fail.message = (
        "[observed during the run; NOT reproduced by 3 direct replays of the "
        "saved case - the library's behaviour depends on state outside the "
        "input] " + fail.message
    )
    fail.details = dict(fail.details, nondeterministic=True)
    return fail


def worker_seed(seed, prop_id, i):
    h = hashlib.sha256(f"{seed}:{prop_id}:{i}".encode()).hexdigest()
    return int(h[:12], 16)


def run_fixed(prop, tier, stats, known_clauses, replay_dir):
    """Replays + fixed cases.  Returns (Failure, replay_path_or_None)."""
    for path in sorted(glob.glob(os.path.join(replay_dir, "*.json"))):
        with open(path, encoding="utf-8") as f:
            data = json.load(f)
        case = data["case"] if isinstance(data, dict) and "case" in data else data
        ctx = Ctx(prop.ID, known_clauses, tier)
        failure = run_case(prop, case, ctx)
        stats.counters["replays"] = stats.counters.get("replays", 0) + 1
        if failure is not None:
            return failure, path
        stats.absorb(case, ctx)
    fixed = getattr(prop, "fixed_cases", None)
    if fixed is not None:
        for case in fixed(tier):
            ctx = Ctx(prop.ID, known_clauses, tier)
            failure = run_case(prop, case, ctx)
            stats.counters["fixed_cases"] = stats.counters.get("fixed_cases", 0) + 1
            if failure is not None:
                return failure, None
            stats.absorb(case, ctx)
    return None, None


def write_failure(prop_id, failure, tier):
    out_dir = os.path.join(OUT, "failures", prop_id)
    os.makedirs(out_dir, exist_ok=True)
    name = f"{tier}-{case_hash(failure.case)[:12]}.json"
    path = os.path.join(out_dir, name)
    with open(path, "w", encoding="utf-8") as f:
        json.dump(failure.to_json(prop_id), f, indent=1, sort_keys=True)
    return path


def write_evidence(prop, tier, seed, stats, wall, violations, extra=None):
    os.makedirs(os.path.join(OUT, "evidence"), exist_ok=True)
    cov = {
        "evaluations": stats.evaluations,
        "distinct_nontrivial": len(stats.nontrivial_hashes),
        "rule": prop.RULE,
        "samples": stats.samples[:3],
        "labels": dict(sorted(stats.labels.items())),
        "counters": dict(sorted(stats.counters.items())),
        "known_findings_hit": stats.known_hits,
        "inconclusive": stats.inconclusive,
        "exhaustive": False,
    }
    if stats.counters.get("small_scope_instances"):
        from . import smallscope

        total = sum(1 for _ in smallscope.all_instances())
        cov["small_scope"] = {
            "domain": smallscope.DESCRIPTION,
            "instances_enumerated": stats.counters["small_scope_instances"],
            "instances_in_domain": total,
            "complete_for_domain": stats.counters["small_scope_instances"] == total,
            "nodes": stats.counters.get("small_scope_nodes", 0),
        }
    if stats.notes:
        cov["notes"] = stats.notes[:20]
    if extra:
        cov.update(extra)
    ev = {
        "property_id": prop.ID,
        "tier": tier,
        "seed": seed,
        "level": "exploration",
        "coverage": cov,
        "assumptions": list(getattr(prop, "ASSUMPTIONS", [])),
        "wall_s": round(wall, 2),
        "violations": violations,
    }
    path = os.path.join(OUT, "evidence", f"{prop.ID}.json")
    tmp = path + ".tmp"
    with open(tmp, "w", encoding="utf-8") as f:
        json.dump(ev, f, indent=1)
    os.replace(tmp, path)
    return path


def budget(prop, tier):
    n = prop.BUDGET[tier]
    scale = float(os.environ.get("VERIF_SCALE", "1"))
    return max(1, int(n * scale))


def worker_main(prop_id, tier, seed, index, out_path):
    prop = load_prop(prop_id)
    known, _ = load_known(prop_id)
    known_clauses = [e["clause"] for e in known if "case" not in e]
    stats = Stats()
    result = stats.to_json()
    try:
        failure = None
        wc = getattr(prop, "worker_cases", None)
        if wc is not None:
            # deterministic share of an enumeration (e.g. small-scope exhaustive)
            n_workers = min(N_WORKERS, getattr(prop, "MAX_WORKERS", N_WORKERS))
            for case in wc(tier, index, n_workers):
                ctx = Ctx(prop_id, known_clauses, tier)
                failure = run_case(prop, case, ctx)
                if failure is not None:
                    break
                stats.absorb(case, ctx)
        if failure is not None:
            result = stats.to_json()
            result["failure"] = failure.to_json(prop_id)
            with open(out_path, "w", encoding="utf-8") as f:
                json.dump(result, f)
            return
        failure = generate(
            prop,
            tier,
            worker_seed(seed, prop_id, index),
            budget(prop, tier),
            stats,
            known_clauses,
            shrink_budget=240,
        )
        result = stats.to_json()
        if failure is not None:
            result["failure"] = failure.to_json(prop_id)
    except HarnessError as e:
        result = stats.to_json()
        result["harness_error"] = str(e)
    with open(out_path, "w", encoding="utf-8") as f:
        json.dump(result, f)


def main(argv):
    if len(argv) >= 2 and argv[1] == "--worker":
        prop_id, tier, seed, index, out_path = argv[2:7]
        worker_main(prop_id, tier, int(seed), int(index), out_path)
        return 0
    if len(argv) < 3:
        print(__doc__)
        return 2
    prop_id = argv[1].upper()
    seed = int(os.environ.get("VERIF_SEED", "1") or "1")
    prop = load_prop(prop_id)
    known, _fixed = load_known(prop_id)
    known_clauses = [e["clause"] for e in known if "case" not in e]
    replay_dir = os.path.join(ROOT, "replays", prop_id)

    if argv[2] == "--replay":
        path = argv[3]
        with open(path, encoding="utf-8") as f:
            data = json.load(f)
        case = data["case"] if isinstance(data, dict) and "case" in data else data
        try:
            failure = run_case(prop, case, Ctx(prop_id, known_clauses, "quick"))
        except HarnessError as e:
            print(f"HARNESS-ERROR property={prop_id}: {e}")
            return 2
        if failure is None:
            print(f"replay passes: property={prop_id} {path}")
            return 0
        print(f"[{failure.clause}] {failure.message}")
        print(f"VIOLATION property={prop_id} replay={path}")
        return 1

    tier = argv[2]
    if tier not in ("quick", "thorough"):
        print(__doc__)
        return 2
    t0 = time.time()
    stats = Stats()
    failure = None
    replay_path = None
    try:
        for e in known:
            if "case" not in e:
                # clause-wide finding: suppressed through Ctx.known
                print(f"KNOWN-FINDING: property={prop_id} {e['what']}")
                continue
            # finding identified by a specific witness input: replay it
            wf = run_case(prop, e["case"], Ctx(prop_id, (), tier))
            if wf is None:
                print(
                    f"NOTE: known finding {e.get('id', '?')} no longer reproduces "
                    f"on this tree (property={prop_id})"
                )
            elif wf.clause == e["clause"]:
                print(f"KNOWN-FINDING: property={prop_id} {e['what']}")
                stats.known_hits[e["clause"]] = stats.known_hits.get(e["clause"], 0) + 1
            else:
                failure = wf
                break
        if failure is None:
            failure, replay_path = run_fixed(prop, tier, stats, known_clauses, replay_dir)
        if failure is None:
            if tier == "quick" or N_WORKERS <= 1:
                failure = generate(
                    prop,
                    tier,
                    seed,
                    budget(prop, tier),
                    stats,
                    known_clauses,
                    shrink_budget=60 if tier == "quick" else 240,
                )
            else:
                failure = run_workers(prop, tier, seed, stats)
            if failure is None and tier == "thorough":
                failure = run_fuzz(prop, seed, stats)
    except HarnessError as e:
        print(f"HARNESS-ERROR property={prop_id}: {e}")
        return 2
    wall = time.time() - t0
    violations = 0 if failure is None else 1
    extra = {}
    if failure is not None:
        if replay_path is None:
            replay_path = write_failure(prop_id, failure, tier)
        extra["violation"] = {
            "clause": failure.clause,
            "message": failure.message[:2000],
            "replay": replay_path,
        }
    ev_path = write_evidence(prop, tier, seed, stats, wall, violations, extra)
    print(
        f"property={prop_id} tier={tier} seed={seed} evaluations={stats.evaluations} "
        f"distinct_nontrivial={len(stats.nontrivial_hashes)} wall_s={wall:.1f} "
        f"evidence={ev_path}"
    )
    for k, v in sorted(stats.known_hits.items()):
        print(f"  known finding clause {k}: hit {v} times (excluded, search continued)")
    if failure is not None:
        print(f"[{failure.clause}] {failure.message[:4000]}")
        print(f"VIOLATION property={prop_id} replay={replay_path}")
        return 1
    return 0


def run_fuzz(prop, seed, stats):
    """Thorough tier, dispatcher-core properties: a coverage-guided campaign
    (atheris / libFuzzer) over the same cases and oracle (jsverif/fuzz.py)."""
    import shutil
    import tempfile

    from .fuzz import FUZZ_PROPS

    if prop.ID not in FUZZ_PROPS:
        return None
    try:
        sys.path.append(os.path.join(ROOT, ".deps"))
        import atheris  # noqa: F401
    except ImportError:
        stats.notes.append("atheris not installed: coverage-guided campaign skipped")
        return None
    runs = int(float(os.environ.get("VERIF_FUZZ_RUNS", "150000")) * float(os.environ.get("VERIF_SCALE", "1")))
    n_proc = min(N_WORKERS, 8)
    out_root = tempfile.mkdtemp(prefix=f"fuzz-{prop.ID}-", dir=os.path.join(OUT, "evidence") if os.path.isdir(os.path.join(OUT, "evidence")) else None)
    procs = []
    for i in range(n_proc):
        out = os.path.join(out_root, f"p{i}")
        os.makedirs(out)
        procs.append(
            (
                out,
                subprocess.Popen(
                    [sys.executable, os.path.join(ROOT, "check"), "--fuzz", prop.ID, str(runs // n_proc), str(worker_seed(seed, prop.ID, 1000 + i) % (2**31 - 1) + 1), out],
                    cwd=ROOT,
                    stdout=subprocess.DEVNULL,
                    stderr=subprocess.DEVNULL,
                ),
            )
        )
    failure = None
    execs = corpus = 0
    for out, p in procs:
        p.wait()
        sp = os.path.join(out, "stats.json")
        if os.path.exists(sp):
            with open(sp, encoding="utf-8") as f:
                d = json.load(f)
            execs += d["execs"]
            stats.nontrivial_hashes.update(d["hashes"])
            for k, v in d["labels"].items():
                stats.labels["fuzz:" + k] = stats.labels.get("fuzz:" + k, 0) + v
            for smp in d["samples"]:
                if len(stats.samples) < 4:
                    stats.samples.append(smp)
        corpus += len(os.listdir(os.path.join(out, "corpus"))) if os.path.isdir(os.path.join(out, "corpus")) else 0
        fp_ = os.path.join(out, "failure.json")
        if os.path.exists(fp_) and failure is None:
            with open(fp_, encoding="utf-8") as f:
                fj = json.load(f)
            failure = Failure(fj["case"], fj["clause"], fj["message"], fj["details"], fj["traceback"])
    shutil.rmtree(out_root, ignore_errors=True)
    stats.evaluations += execs
    stats.counters["fuzz_execs"] = execs
    stats.counters["fuzz_corpus_files"] = corpus
    stats.counters["fuzz_processes"] = n_proc
    if failure is not None:
        again = run_case(prop, failure.case, Ctx(prop.ID, (), "thorough"))
        if again is not None:
            failure = again
    return failure


def run_workers(prop, tier, seed, stats):
    parts = os.path.join(OUT, "evidence", ".parts", f"{prop.ID}-{os.getpid()}")
    os.makedirs(parts, exist_ok=True)
    n = min(N_WORKERS, getattr(prop, "MAX_WORKERS", N_WORKERS))
    procs = []
    env = dict(os.environ)
    for i in range(n):
        out = os.path.join(parts, f"w{i}.json")
        procs.append(
            (
                i,
                out,
                subprocess.Popen(
                    [
                        sys.executable,
                        os.path.join(ROOT, "check"),
                        "--worker",
                        prop.ID,
                        tier,
                        str(seed),
                        str(i),
                        out,
                    ],
                    cwd=ROOT,
                    env=env,
                ),
            )
        )
    failure = None
    errors = []
    for i, out, p in procs:
        p.wait()
        if not os.path.exists(out):
            errors.append(f"worker {i} exited {p.returncode} without output")
            continue
        with open(out, encoding="utf-8") as f:
            d = json.load(f)
        os.remove(out)
        stats.merge_json(d)
        if d.get("harness_error"):
            errors.append(f"worker {i}: {d['harness_error']}")
        if d.get("failure") and (
            failure is None
            or len(canon(d["failure"]["case"])) < len(canon(failure.case))
        ):
            fj = d["failure"]
            failure = Failure(
                fj["case"], fj["clause"], fj["message"], fj["details"], fj["traceback"]
            )
    try:
        os.rmdir(parts)
        os.rmdir(os.path.dirname(parts))
    except OSError:
        pass
    if errors and failure is None:
        raise HarnessError("; ".join(errors)[:6000])
    return failure


if __name__ == "__main__":
    sys.exit(main(sys.argv))
